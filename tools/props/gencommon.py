"""Shared harness for the generator properties C09, C10, C11.

REPLAY correspondence: the implementation's generators are run with every source of randomness patched to a recorder
(random.randint / random.uniform; helpers.choices -> the produced string; uuid4(); datetime.now();
random_combination_with_replacement / random_permutation re-implemented on top of the recorded randint). The model
program gen_true / gen_false (Lemmas/GenModel.v) is then executed inside Coq on the SAME draws and the first N values
of both streams are compared (sets/dicts as sets, strings by emptiness, everything else structurally).

SEARCH: the real generators under the real PRNG, judged by plain calls of the predicate; work between two next()
results is counted in interpreter line events."""
from __future__ import annotations

import datetime as dtmod
import itertools
import math
import random
import signal
import sys
import uuid
from fractions import Fraction

from common import call, chunks, enc, gen, rng_of, vlib

import predicate.generator.generate_false as GF
import predicate.generator.generate_true as GT
import predicate.generator.helpers as H
from predicate import predicate as PP
from predicate.standard_predicates import (all_p, any_p, eq_p, ge_p, gt_p, has_key_p, is_bool_p, is_complex_p, is_datetime_p,
                                           is_dict_p, is_float_p, is_int_p, is_none_p, is_not_none_p, is_set_of_p, is_set_p,
                                           is_str_p, is_uuid_p, le_p, lt_p, ne_p, is_falsy_p, is_truthy_p)
from predicate.set_predicates import in_p, not_in_p

EPOCH = dtmod.datetime(2000, 1, 1)


class Recorder:
    """patches every source of randomness used by the generators and records the draws in order"""

    def __init__(self):
        self.draws = []          # ("Z", int) | ("Q", float) | ("V", value)

    def __enter__(self):
        rec = self
        self.saved = (random.randint, random.uniform, H.choices, H.uuid4, H.datetime,
                      GT.random_combination_with_replacement, GT.random_permutation, GF.random_combination_with_replacement)
        real_randint, real_uniform, real_choices = random.randint, random.uniform, H.choices

        def randint(a, b):
            z = real_randint(a, b)
            rec.draws.append(("Z", z))
            return z

        def uniform(a, b):
            q = real_uniform(a, b)
            rec.draws.append(("Q", q))
            return q

        def choices(pop, k):
            s = "".join(real_choices(pop, k=k))
            rec.draws.append(("V", s))
            return list(s)

        def uuid4():
            u = uuid.uuid4()
            rec.draws.append(("V", u))
            return u

        class DT(dtmod.datetime):
            @classmethod
            def now(cls, tz=None):
                d = dtmod.datetime.now()
                rec.draws.append(("V", d))
                return d

        def rcwr(values, r):
            pool = tuple(values)
            n = len(pool)
            if n == 0 and r > 0:
                raise ValueError("empty pool")
            idx = sorted(random.randint(0, n - 1) for _ in range(r))
            return tuple(pool[i] for i in idx)

        def perm(iterable, r=None):
            return tuple(iterable)          # order is irrelevant for the comparison (compared as a set)
        random.randint, random.uniform = randint, uniform
        H.choices, H.uuid4, H.datetime = choices, uuid4, DT
        GT.random_combination_with_replacement = rcwr
        GT.random_permutation = perm
        GF.random_combination_with_replacement = rcwr
        return self

    def __exit__(self, *a):
        (random.randint, random.uniform, H.choices, H.uuid4, H.datetime,
         GT.random_combination_with_replacement, GT.random_permutation, GF.random_combination_with_replacement) = self.saved


class Timeout(Exception):
    pass


def _alarm(*a):
    raise Timeout()


def take(gen_, n, seconds=20.0):
    out, err = [], None
    signal.signal(signal.SIGALRM, _alarm)
    signal.setitimer(signal.ITIMER_REAL, seconds)
    try:
        for v in gen_:
            out.append(v)
            if len(out) >= n:
                break
    except Timeout:
        err = "timeout"
    except Exception as e:  # noqa: BLE001
        err = f"{type(e).__name__}: {e}"
    finally:
        signal.setitimer(signal.ITIMER_REAL, 0)
    return out, err


# ---------------------------------------------------------------- encoding
class GCtx(enc.Ctx):
    """constants of one sort; datetimes as days since EPOCH (so that +- timedelta(days) is +- in Q)"""

    def __init__(self, ck, extra=()):
        super().__init__(strings=list(extra) if ck in ("KStr", "KUuid") else None)
        self.ck = ck

    def q(self, v):
        if isinstance(v, dtmod.datetime):
            d = v - EPOCH
            fr = Fraction(d.days * 86400 * 10**6 + d.seconds * 10**6 + d.microseconds, 86400 * 10**6)
            return f"({fr.numerator}#{fr.denominator})" if fr >= 0 else f"(-{-fr.numerator}#{fr.denominator})"
        return super().q(v)

    def qset(self, s):
        return "[" + "; ".join(self.q(v) for v in s) + "]"       # iteration order (generate_in yields in that order)

    def val(self, x):
        if isinstance(x, dtmod.datetime) and self.ck == "KDatetime":
            return f"(VQ KDatetime {self.q(x)} true)"
        return super().val(x)


def sort_of(p):
    ks = set()
    for t in subterms(p):
        for a in ("v", "lower", "upper", "key"):
            c = getattr(t, a, None)
            if c is None or isinstance(t, PP.AllPredicate if False else ()):
                continue
            items = c if isinstance(c, (set, frozenset)) else [c]
            for i in items:
                ks.add({bool: "KInt", int: "KInt", float: "KFloat", str: "KStr", dtmod.datetime: "KDatetime", uuid.UUID: "KUuid"}.get(type(i), "other"))
    if len(ks) > 1 or "other" in ks:
        return None
    return ks.pop() if ks else "KInt"


def subterms(p):
    yield p
    for a in ("left", "right", "predicate"):
        c = getattr(p, a, None)
        if isinstance(c, PP.Predicate):
            yield from subterms(c)


def consts_of(p):
    out = []
    for t in subterms(p):
        for a in ("v", "lower", "upper", "key"):
            c = getattr(t, a, None)
            if c is None:
                continue
            out += list(c) if isinstance(c, (set, frozenset)) else [c]
    return out


def fenv_text(cx, consts):
    """finite tables for nextafter and the derived bounds, computed with an independent copy of the formulas"""
    fl = [float(c) for c in consts if isinstance(c, float)]
    pts = set(fl)
    for v in fl:
        pts |= {math.nextafter(v, math.inf), math.nextafter(v, -math.inf)}
    fmax = sys.float_info.max

    def dlo(u):
        return min(u, max(-fmax, min(-1e6, u - max(1e6, abs(u)))))

    def dhi(lo):
        return max(lo, min(fmax, max(1e6, lo + max(1e6, abs(lo)))))

    def table(f):
        body = "v"
        for x in sorted(pts):
            body = f"if Qeq_bool v {cx.q(x)} then {cx.q(f(x))} else ({body})"
        return f"(fun v : Q => {body})"
    return ("{| nup := %s; ndown := %s; dlo := %s; dhi := %s |}"
            % (table(lambda x: math.nextafter(x, math.inf)), table(lambda x: math.nextafter(x, -math.inf)), table(dlo), table(dhi)))


COMMON_DEFS = """
From PP Require Import Lemmas.Term Lemmas.GenDSL Lemmas.GenModel.
Open Scope Q_scope.
Fixpoint sim (a b : val) {struct a} : bool :=
  match a, b with
  | VQ k q _, VQ k' q' _ => kind_eqb k k' && Qeq_bool q q'
  | VNone, VNone => true
  | VOther k i _, VOther k' i' _ => kind_eqb k k' && (Nat.eqb i i' || match k with KComplex | KStr => true | _ => false end)
  | VColl k l, VColl k' l' =>
      kind_eqb k k' &&
      match k with
      | KStr => Bool.eqb (match l with [] => true | _ => false end) (match l' with [] => true | _ => false end)
      | KSet | KDict => forallb (fun x => existsb (fun y => sim x y) l') l && forallb (fun y => existsb (fun x => sim x y) l) l'
      | _ => (fix go (l l' : list val) {struct l} : bool :=
               match l, l' with [] , [] => true | x :: r, y :: r' => sim x y && go r r' | _, _ => false end) l l'
             || (* a tuple in another order (random_permutation): same elements, same length *)
                (match k with KTuple => Nat.eqb (List.length l) (List.length l') &&
                                        forallb (fun x => existsb (fun y => sim x y) l') l && forallb (fun y => existsb (fun x => sim x y) l) l'
                            | _ => false end)
      end
  | _, _ => false
  end.
Inductive draw := DZ (z : Z) | DQ (q : Q) | DV (v : val).
Definition mk_oracle (ds : list draw) : oracle :=
  {| oz := fun i => match nth i ds (DZ 0%Z) with DZ z => z | _ => 0%Z end;
     oq := fun i => match nth i ds (DZ 0%Z) with DQ q => q | _ => 0 end;
     ov := fun i => match nth i ds (DZ 0%Z) with DV v => v | _ => VNone end |}.
Fixpoint same_stream (a b : list val) : bool :=
  match a, b with [], [] => true | x :: r, y :: r' => sim x y && same_stream r r' | _, _ => false end.
"""


def replay_cases(mode, preds, n_values, seed, max_draws=None):
    """-> (coq items, descriptions). One case = (program, oracle, expected first n values)"""
    items, desc = [], []
    genf = GT.generate_true if mode == "true" else GF.generate_false
    for p in preds:
        ck = sort_of(p)
        if ck is None:
            continue
        random.seed(seed * 1000003 + len(items))
        with Recorder() as rec:
            try:
                vals, err = take(genf(p), n_values)
            except ValueError:
                continue        # unsupported kind: ValueError at call time
        if err is not None and err != "timeout":
            continue            # an exception inside the stream: the search reports it; nothing to compare
        drawn = [v for k, v in rec.draws if k == "V"]
        extra = [c for c in consts_of(p)] + [v for v in drawn if isinstance(v, (str, uuid.UUID))]
        cx = GCtx(ck, extra)
        try:
            ds = "[" + "; ".join((f"DZ ({v})%Z" if k == "Z" else (f"DQ {cx.q(float(v))}" if k == "Q" else f"DV {cx.val(v)}"))
                                 for k, v in rec.draws) + "]"
            exp = "[" + "; ".join(cx.val(v) for v in vals) + "]"
            ptxt = cx.pred(p)
        except (enc.Unencodable, KeyError, TypeError):
            continue
        fe = fenv_text(cx, consts_of(p))
        if max_draws and len(rec.draws) > max_draws:
            continue
        items.append(f"(({fe}), {ck}, {ptxt}, {ds}, {exp}, {len(vals)}%nat)")
        desc.append({"p": repr(p), "mode": mode, "values": len(vals), "draws": len(rec.draws), "ended": err is None and len(vals) < n_values})
    return items, desc


def run_replay(name, mode, preds, n_values, seed, max_draws=None):
    from concurrent.futures import ThreadPoolExecutor
    items, desc = replay_cases(mode, preds, n_values, seed, max_draws)
    fn = "gen_true" if mode == "true" else "gen_false"
    run_def = ("Definition run (c : fenv * kind * pred * list draw * list val * nat) : nat :=\n"
               "  let '(fe, ck, p, ds, expected, n) := c in\n"
               f"  let got := first_n (300 * 1000)%nat n ({fn} fe W0 ck p) (mk_oracle ds) 0 in\n"
               "  if same_stream got expected then 0%nat else if Nat.eqb (List.length got) (List.length expected) then 1%nat else 2%nat.")
    parts = list(chunks(items, 12))

    def one(ip):
        i, part = ip
        text = (enc.CASE_HEADER + enc.world_text() + COMMON_DEFS + run_def
                + "\nDefinition cases : list (fenv * kind * pred * list draw * list val * nat) := [\n" + ";\n".join(part)
                + "].\nEval vm_compute in map run cases.\n")
        return vlib.parse_nat_list(vlib.coq_eval(f"{name}_{i}", text, timeout=900))
    codes = []
    with ThreadPoolExecutor(max_workers=12) as ex:
        for r in ex.map(one, enumerate(parts)):
            codes += r
    mism = [{**desc[i], "disagreement": {1: "a value differs", 2: "the model yields a different number of values"}[c]}
            for i, c in enumerate(codes) if c != 0]
    return desc, mism


# ---------------------------------------------------------------- is_tuple_of_p (its own program: Lemmas/GenTupleOf.v)
def tuple_grid():
    from predicate.standard_predicates import is_tuple_of_p
    d0 = dtmod.datetime(2024, 2, 28, 12, 30)
    comps = [(ge_p(3), le_p(-3)), (le_p(-3), ge_p(3)), (eq_p(4), is_int_p, in_p(1, 2)), (ge_p(3) | le_p(-3), is_none_p), (all_p(ge_p(1)), is_bool_p),
             (ge_p(BIG + 1),), (), (PP.always_false_p, ge_p(1)), (ge_p(1), PP.always_false_p), (in_p(1, 2, 3), ge_p(0)), (ge_p(0), in_p(1, 2, 3), lt_p(0)),
             (is_int_p, is_str_p, is_float_p, is_none_p), (ne_p(0), not_in_p(1, 2)), (ge_p(3) & le_p(10), gt_p(-10**30)), (is_set_of_p(eq_p(4)), any_p(ge_p(3))),
             (ge_p(2.5), lt_p(2.5)), (lt_p(1e300), ge_p(-1.0), eq_p(2.0)), (ge_p("m"), eq_p("foo"), is_str_p), (lt_p("m"), in_p("a", "b")),
             (ge_p(d0), lt_p(d0)), (is_truthy_p, is_falsy_p, is_not_none_p), (has_key_p(3), is_dict_p), (eq_p(1), eq_p(2), eq_p(3), eq_p(4), eq_p(5), eq_p(6))]
    return [is_tuple_of_p(*c) for c in comps]


def run_replay_tuple(name, tuples, n_values, seed):
    """generate_true(is_tuple_of_p(p1..pn)): recorded draws replayed on gen_tuple_of; tuples compared component by component, IN ORDER"""
    items, desc = [], []
    for t in tuples:
        comps = list(t.predicates)
        kinds = {sort_of(c) for c in comps}
        named = {k for c in comps for k in [sort_of(c)] if consts_of_all(c)}
        if None in kinds or len(named) > 1:
            continue
        ck = named.pop() if named else "KInt"
        random.seed(seed * 1000003 + len(items))
        with Recorder() as rec:
            try:
                vals, err = take(GT.generate_true(t), n_values)
            except ValueError:
                continue
        if err is not None and err != "timeout":
            continue
        allc = [c for comp in comps for c in consts_of_all(comp)]
        drawn = [v for k, v in rec.draws if k == "V"]
        cx = GCtx(ck, allc + [v for v in drawn if isinstance(v, (str, uuid.UUID))])
        try:
            ds = "[" + "; ".join((f"DZ ({v})%Z" if k == "Z" else (f"DQ {cx.q(float(v))}" if k == "Q" else f"DV {cx.val(v)}")) for k, v in rec.draws) + "]"
            exp = "[" + "; ".join(cx.val(v) for v in vals) + "]"
            ptxt = "[" + "; ".join(cx.pred(c) for c in comps) + "]"
        except (enc.Unencodable, KeyError, TypeError):
            continue
        if len(rec.draws) > 4000:
            continue
        items.append(f"(({fenv_text(cx, allc)}), {ck}, {ptxt}, {ds}, {exp}, {len(vals)}%nat)")
        desc.append({"p": "is_tuple_of_p(" + ", ".join(repr(c) for c in comps) + ")", "mode": "true", "values": len(vals), "draws": len(rec.draws),
                     "ended": err is None and len(vals) < n_values})
    run_def = ("From PP Require Import Lemmas.GenTupleOf.\nOpen Scope Q_scope.\n"
               "Definition sim_t (a b : val) : bool := match a, b with\n"
               "  | VColl KTuple l, VColl KTuple l' => (fix go (l l' : list val) {struct l} : bool :=\n"
               "       match l, l' with [], [] => true | x :: r, y :: r' => sim x y && go r r' | _, _ => false end) l l'\n"
               "  | _, _ => false end.\n"
               "Fixpoint same_t (a b : list val) : bool := match a, b with [], [] => true | x :: r, y :: r' => sim_t x y && same_t r r' | _, _ => false end.\n"
               "Definition run (c : fenv * kind * list pred * list draw * list val * nat) : nat :=\n"
               "  let '(fe, ck, ps, ds, expected, n) := c in\n"
               "  let got := first_n (300 * 1000)%nat n (gen_tuple_of fe W0 ck ps) (mk_oracle ds) 0 in\n"
               "  if same_t got expected then 0%nat else if Nat.eqb (List.length got) (List.length expected) then 1%nat else 2%nat.")
    codes = []
    for i, part in enumerate(chunks(items, 12)):
        text = (enc.CASE_HEADER + enc.world_text() + COMMON_DEFS + run_def
                + "\nDefinition cases : list (fenv * kind * list pred * list draw * list val * nat) := [\n" + ";\n".join(part)
                + "].\nEval vm_compute in map run cases.\n")
        codes += vlib.parse_nat_list(vlib.coq_eval(f"{name}_t{i}", text, timeout=900))
    mism = [{**desc[i], "disagreement": {1: "a tuple differs (components compared in order)", 2: "the model yields a different number of tuples"}[c]}
            for i, c in enumerate(codes) if c != 0]
    return desc, mism


# ---------------------------------------------------------------- is_dict_of_p (Lemmas/DictOf.v, Lemmas/GenDictOf.v)
def dict_grid():
    from predicate.standard_predicates import is_dict_of_p
    kvs = [((eq_p(1), ge_p(3)), (eq_p(2), is_none_p)), ((eq_p(1), eq_p(5)), (ge_p(0), ge_p(7))), ((ge_p(0), ge_p(7)), (eq_p(1), eq_p(5))),
           ((is_int_p, is_int_p),), ((eq_p(1), is_bool_p), (eq_p(1), is_none_p)), ((eq_p(1), is_bool_p), (eq_p(1.0), is_none_p), (eq_p(2), eq_p(3))), (),
           ((in_p(1, 2, 3), ge_p(0)),), ((eq_p(4), PP.always_false_p),), ((PP.always_false_p, eq_p(4)), (eq_p(1), eq_p(1))), ((le_p(-3), all_p(ge_p(1))), (ge_p(3), is_set_of_p(eq_p(4)))),
           (("a", is_int_p), (is_str_p, is_str_p)), (("a", is_int_p), ("b", is_str_p)), ((ge_p("m"), eq_p("foo")), (lt_p("m"), is_none_p)),
           ((ge_p(2.5), lt_p(2.5)), (lt_p(2.5), ge_p(2.5))), ((is_none_p, is_none_p), (is_truthy_p, is_falsy_p)), ((eq_p(1), eq_p(1)), (eq_p(2), eq_p(2)), (eq_p(3), eq_p(3)), (eq_p(4), eq_p(4)))]
    return [is_dict_of_p(*k) for k in kvs]


def _dict_sort(d):
    comps = [c for kv in d.key_value_predicates for c in kv]
    kinds = {sort_of(c) for c in comps}
    named = {sort_of(c) for c in comps if consts_of(c)}
    if None in kinds or len(named) > 1:
        return None, comps
    return (named.pop() if named else "KInt"), comps


DICT_DEFS = ("From PP Require Import Lemmas.DictOf Lemmas.GenDictOf.\nOpen Scope Q_scope.\n"
             "(* a number next to constants of another sort is an opaque scalar on the harness side (VOther): same type is all that can be compared *)\n"
             "Definition simx (a b : val) : bool := sim a b || match a, b with\n"
             "  | VQ k _ _, VOther k' _ _ | VOther k _ _, VQ k' _ _ => kind_eqb k k' && match k with KBool | KInt | KFloat => true | _ => false end\n"
             "  | _, _ => false end.\n"
             "Definition sim_item (a b : val) : bool := match a, b with\n"
             "  | VColl KTuple [k; v], VColl KTuple [k'; v'] => simx k k' && simx v v' | _, _ => false end.\n"
             "Definition sim_d (a b : val) : bool := match a, b with\n"
             "  | VColl KDict l, VColl KDict l' => (fix go (l l' : list val) {struct l} : bool :=\n"
             "       match l, l' with [], [] => true | x :: r, y :: r' => sim_item x y && go r r' | _, _ => false end) l l'\n"
             "  | _, _ => false end.\n"
             "Fixpoint same_d (a b : list val) : bool := match a, b with [], [] => true | x :: r, y :: r' => sim_d x y && same_d r r' | _, _ => false end.\n")


def _enc_dict(cx, d):
    return "(VColl KDict [" + "; ".join(f"VColl KTuple [{cx.val(k)}; {cx.val(v)}]" for k, v in d.items()) + "])"


def run_replay_dict(name, dicts, n_values, seed):
    """generate_true(is_dict_of_p(...)): recorded draws replayed on gen_dict_of; dicts compared item by item, in insertion order.
    Every value the IMPLEMENTATION yielded is also evaluated by DictOfPredicate.__call__ and by the model's dict_of_items (same answer)."""
    items, desc, call_items, call_exp, call_desc = [], [], [], [], []
    for t in dicts:
        ck, comps = _dict_sort(t)
        if ck is None:
            continue
        random.seed(seed * 1000003 + len(items))
        with Recorder() as rec:
            try:
                vals, err = take(GT.generate_true(t), n_values)
            except ValueError:
                continue
        if err is not None and err != "timeout":
            continue
        allc = [c for comp in comps for c in consts_of(comp)]
        drawn = [v for k, v in rec.draws if k == "V"]
        cx = GCtx(ck, allc + [v for v in drawn if isinstance(v, (str, uuid.UUID))] + ["a", "b", "x"])
        try:
            ds = "[" + "; ".join((f"DZ ({v})%Z" if k == "Z" else (f"DQ {cx.q(float(v))}" if k == "Q" else f"DV {cx.val(v)}")) for k, v in rec.draws) + "]"
            exp = "[" + "; ".join(_enc_dict(cx, v) for v in vals) + "]"
            ptxt = "[" + "; ".join(f"({cx.pred(kp_)}, {cx.pred(vp_)})" for kp_, vp_ in t.key_value_predicates) + "]"
            calls = []
            for v in vals[:6]:
                k_, r_ = call(t, v)
                calls.append((f"(({fenv_text(cx, allc)}), {ck}, {ptxt}, " + "[" + "; ".join(f"({cx.val(a)}, {cx.val(b)})" for a, b in v.items()) + "])",
                              (1 if r_ else 0) if k_ == "ok" else 2, repr(v)[:200]))
        except (enc.Unencodable, KeyError, TypeError):
            continue
        if len(rec.draws) > 4000:
            continue
        items.append(f"(({fenv_text(cx, allc)}), {ck}, {ptxt}, {ds}, {exp}, {len(vals)}%nat)")
        label = "is_dict_of_p(" + ", ".join(f"({kp_!r}, {vp_!r})" for kp_, vp_ in t.key_value_predicates) + ")"
        desc.append({"p": label, "mode": "true", "values": len(vals), "draws": len(rec.draws), "ended": err is None and len(vals) < n_values})
        # hand-written dicts as well (empty, partial, overlapping, wrong-typed keys: the raising branches)
        for v in ({}, {1: 5}, {1: 5, 0: 7}, {0: 7, 1: 5}, {1: 3, 2: None}, {2: None}, {1: None}, {"a": 1}, {"a": 1, "b": "x"}, {"b": 2}, {None: None}, {1: True, 1.5: 2.5}, {4: 4, 1: 1, 3: 3, 2: 2}):
            try:
                k_, r_ = call(t, v)
                calls.append((f"(({fenv_text(cx, allc)}), {ck}, {ptxt}, " + "[" + "; ".join(f"({cx.val(a)}, {cx.val(b)})" for a, b in v.items()) + "])",
                              (1 if r_ else 0) if k_ == "ok" else 2, repr(v)[:200]))
            except (enc.Unencodable, KeyError, TypeError):
                continue
        for txt, e_, r_ in calls:
            call_items.append(txt)
            call_exp.append(e_)
            call_desc.append({"p": label, "x": r_})
    run_def = (DICT_DEFS +
               "Definition run (c : fenv * kind * list kvpred * list draw * list val * nat) : nat :=\n"
               "  let '(fe, ck, kvs, ds, expected, n) := c in\n"
               "  let got := first_n (300 * 1000)%nat n (gen_dict_of fe W0 ck kvs) (mk_oracle ds) 0 in\n"
               "  if same_d got expected then 0%nat else if Nat.eqb (List.length got) (List.length expected) then 1%nat else 2%nat.")
    codes = []
    for i, part in enumerate(chunks(items, 12)):
        text = (enc.CASE_HEADER + enc.world_text() + COMMON_DEFS + run_def
                + "\nDefinition cases : list (fenv * kind * list kvpred * list draw * list val * nat) := [\n" + ";\n".join(part)
                + "].\nEval vm_compute in map run cases.\n")
        codes += vlib.parse_nat_list(vlib.coq_eval(f"{name}_d{i}", text, timeout=900))
    mism = [{**desc[i], "disagreement": {1: "a dict differs (items compared in insertion order)", 2: "the model yields a different number of dicts"}[c]}
            for i, c in enumerate(codes) if c != 0]
    # DictOfPredicate.__call__ vs dict_of_items on the yielded dicts
    call_def = (DICT_DEFS + "Definition run (c : fenv * kind * list kvpred * list item) : nat :=\n"
                "  let '(fe, ck, kvs, its) := c in match dict_of_items W0 kvs its with Some true => 1%nat | Some false => 0%nat | None => 2%nat end.")
    ccodes = []
    for i, part in enumerate(chunks(call_items, 40)):
        text = (enc.CASE_HEADER + enc.world_text() + COMMON_DEFS + call_def
                + "\nDefinition cases : list (fenv * kind * list kvpred * list item) := [\n" + ";\n".join(part) + "].\nEval vm_compute in map run cases.\n")
        ccodes += vlib.parse_nat_list(vlib.coq_eval(f"{name}_dc{i}", text, timeout=900))
    mism += [{**call_desc[i], "disagreement": f"DictOfPredicate.__call__ gives {call_exp[i]} and dict_of_items {c} (0 False, 1 True, 2 raises)"}
             for i, c in enumerate(ccodes) if c != call_exp[i]]
    return desc, mism, {"dict_calls_compared": len(ccodes), "dict_calls_false": sum(1 for e in call_exp if e == 0)}


def consts_of_all(p):
    return consts_of(p)


# ---------------------------------------------------------------- predicate grids
BIG = sys.maxsize


def int_bounds():
    return [0, 1, -1, 5, 100, 101, -100, -101, 1000, -12345, BIG, BIG + 1, -BIG - 1, 10**30, -10**30]


def float_bounds():
    return [0.0, 1.0, -1.0, 2.0, 2.5, 100.0, -100.0, 1e6, 2e6, -3e7, 1e300, -1e300, 5e-324, 1e-9]


def grid_true(tier):
    ps = []
    for b in int_bounds():
        ps += [ge_p(b), gt_p(b), le_p(b), lt_p(b), eq_p(b), ne_p(b)]
    for b in float_bounds():
        ps += [ge_p(b), gt_p(b), le_p(b), lt_p(b), eq_p(b)]
    d0 = dtmod.datetime(2024, 2, 28, 12, 30)
    ps += [ge_p(d0), gt_p(d0), le_p(d0), lt_p(d0), eq_p(d0)]
    ps += [ge_p("m"), lt_p("m"), eq_p("foo"), in_p("a", "b"), not_in_p("a", "b")]
    ps += [in_p(1, 2, 3), in_p(7), in_p(), not_in_p(1, 2), not_in_p(*range(-3, 4)), not_in_p()]
    ps += [PP.always_true_p, PP.always_false_p, is_none_p, is_not_none_p, is_falsy_p, is_truthy_p, PP.is_empty_p,
           is_bool_p, is_int_p, is_float_p, is_str_p, is_complex_p, is_dict_p, is_set_p, is_datetime_p, is_uuid_p]
    el = [ge_p(3), le_p(-200), eq_p(4), is_int_p, is_bool_p, is_none_p, in_p(1, 2), is_str_p, is_float_p, PP.always_false_p, gt_p(2.5), is_dict_p]
    for e in el:
        ps += [all_p(e), any_p(e), is_set_of_p(e)]
    ps += [ge_p(3) & le_p(10), is_int_p & ge_p(0), ge_p(3) | le_p(-3), is_int_p | is_str_p, is_none_p | eq_p(5), all_p(all_p(ge_p(1))),
           has_key_p(3), has_key_p("k"), ge_p(5) & lt_p(5), eq_p(2) | is_none_p | is_bool_p]
    # powerset generators (sets whose CPython iteration order is the ascending one the model assumes)
    from predicate.set_predicates import is_real_subset_p, is_subset_p
    ps += [is_subset_p({1, 2, 3}), is_real_subset_p({1, 2, 3}), is_subset_p({2}), is_real_subset_p({2}), is_subset_p(set()),
           is_real_subset_p(set()), is_subset_p({0, 1, 2, 3}), is_real_subset_p({1, 2})]
    return ps


def grid_false(tier):
    ps = []
    for b in int_bounds():
        ps += [ge_p(b), gt_p(b), eq_p(b), ne_p(b)]
    for b in float_bounds():
        ps += [ge_p(b), gt_p(b)]
    d0 = dtmod.datetime(2024, 2, 28, 12, 30)
    ps += [ge_p(d0), gt_p(d0), ge_p("m"), gt_p("m")]
    ps += [in_p(1, 2, 3), in_p("a", "b"), in_p(), PP.always_true_p, PP.always_false_p, is_none_p, is_not_none_p, is_falsy_p, is_truthy_p,
           PP.is_empty_p, is_bool_p, is_int_p, is_float_p, is_str_p, is_dict_p]
    el = [ge_p(3), eq_p(4), is_int_p, is_none_p, is_not_none_p, PP.always_true_p, gt_p(2.5)]
    for e in el:
        ps += [all_p(e), is_set_of_p(e)]
    ps += [ge_p(3) & ge_p(10), is_int_p & ge_p(0), ge_p(3) | ge_p(-3), is_int_p | is_str_p, is_none_p | eq_p(5), ne_p(1) & ne_p(2)]
    return ps


def search_extra(mode):
    """search only (implementation side, judged by calling the predicate on every yielded value): shapes and magnitudes beyond the
    replay grid - bounded intervals with every strictness in both operand orders, float bounds near the end of the float range,
    disjunctions whose left stream is finite, and element predicates that print alike asked one after the other"""
    from predicate.standard_predicates import le_p, lt_p, ne_p
    ps = []
    for a, b in ((0, 3), (-5, 5), (-20, -17), (7, 9), (2, 2)):
        for lo in (ge_p, gt_p):
            for hi in (le_p, lt_p):
                ps += [lo(a) & hi(b), hi(b) & lo(a)]
    for b in (1e308, 1.5e308, 8.99e307, 6.1e307, -1e308, -1.5e308, -8.99e307, 1.7976931348623157e308, -1.7976931348623157e308, 5e-324):
        ps += [ge_p(b), gt_p(b), le_p(b), lt_p(b)]
    ps += [all_p(ge_p(1e308)), all_p(le_p(-1e308)), any_p(gt_p(1.5e308))]
    import datetime as _dt
    from predicate.set_predicates import is_real_subset_p, is_subset_p
    d1 = _dt.datetime(2024, 1, 15, 10, 30)
    nest_all = is_int_p
    nest_any = is_int_p
    for _ in range(9):
        nest_all, nest_any = all_p(nest_all), any_p(nest_any)
    ps += [ge_p("2024-01-15T10:30:00"), gt_p("abcdefghijkl"), le_p("2024-01-15T10:30:00"), lt_p("mmmmmmmmmmmmmmm"), gt_p(d1), lt_p(d1),
           ge_p(2 ** 53 + 4), gt_p(2 ** 53 + 3), ge_p(2 ** 64 + 2050), gt_p(10 ** 20 + 9000), ge_p(-(2 ** 64) - 10), le_p(2 ** 53 + 3), lt_p(-(2 ** 64)),
           nest_any, all_p(all_p(all_p(all_p(ge_p(3)))))]
    if mode == "true":
        ps += [is_subset_p(set(range(11))), is_real_subset_p(set(range(11))), is_real_subset_p(set(range(12))), is_subset_p({"a", "b", "c"})]
    from predicate.standard_predicates import eq_true_p, eq_false_p
    from predicate import optimize as _opt
    ps += [eq_true_p, eq_false_p, eq_p(True), eq_p(False), PP.is_not_empty_p, _opt(~PP.is_empty_p), all_p(PP.is_not_empty_p), all_p(eq_true_p)]
    if mode == "false":
        ps += [is_not_none_p | is_truthy_p, ne_p("a") | PP.is_empty_p, is_not_none_p | ge_p(3), ne_p(4) | is_truthy_p, is_truthy_p | is_not_none_p]
    else:
        ps += [is_none_p | is_falsy_p, eq_p(4) | is_none_p | PP.is_empty_p, in_p(1) | ge_p(3), PP.is_empty_p | eq_p("a")]
    for ma, mb in gen.twin_makers()[:12]:
        for q in (all_p, any_p, is_set_of_p):
            ps += [q(ma()), q(mb())]
    tw = [q(m()) for ma, mb in gen.twin_makers()[:12] for q in (all_p, is_set_of_p) for m in (mb, ma)]
    return ps + tw


# ---------------------------------------------------------------- search helpers
def count_lines(fn):
    """run fn() counting interpreter line events; returns (result, lines)"""
    n = [0]

    def tracer(frame, event, arg):
        if event == "line":
            n[0] += 1
        return tracer
    old = sys.gettrace()
    sys.settrace(tracer)
    try:
        r = fn()
    finally:
        sys.settrace(old)
    return r, n[0]


def pull(gen_, budget_lines=400000, seconds=30.0):
    """next(gen) with a line-event budget: ('value', v, lines) | ('stop', None, lines) | ('spin', None, lines) | ('error', text, lines)
    | ('slow', None, lines).  Only the deterministic line-event budget decides 'spin'; the wall-clock limit is a safety net whose
    expiry below the budget is reported as 'slow' (inconclusive: a loaded machine must not produce an alarm)"""
    n = [0]

    class Budget(Exception):
        pass

    def tracer(frame, event, arg):
        if event == "line":
            n[0] += 1
            if n[0] > budget_lines:
                raise Budget()
        return tracer
    signal.signal(signal.SIGALRM, _alarm)
    signal.setitimer(signal.ITIMER_REAL, seconds)
    old = sys.gettrace()
    sys.settrace(tracer)
    try:
        v = next(gen_)
        return ("value", v, n[0])
    except StopIteration:
        return ("stop", None, n[0])
    except Budget:
        return ("spin", None, n[0])
    except Timeout:
        return ("spin" if n[0] > budget_lines else "slow", None, n[0])
    except Exception as e:  # noqa: BLE001
        return ("error", f"{type(e).__name__}: {e}", n[0])
    finally:
        sys.settrace(old)
        signal.setitimer(signal.ITIMER_REAL, 0)


# ---------------------------------------------------------------- histories (history.py)
def _mutate_in_place(v):
    """what a caller may do with a value it was handed: fill an empty container, empty a filled one"""
    try:
        if isinstance(v, list):
            v.clear() if v else v.append("item")
        elif isinstance(v, set):
            v.clear() if v else v.add("item")
        elif isinstance(v, dict):
            v.clear() if v else v.update(key="value")
    except Exception:  # noqa: BLE001
        pass


def history_block(mode, genf, makers, poison=(), seed=0, k=6, need_first=()):
    """makers: (label, thunk building a FRESH predicate).  One history in one process: every request is made on a temporary predicate,
    its values are judged by another fresh copy, the caller then mutates the containers it was handed; repeated in several orders and
    after requests that raise.  need_first: labels whose stream must deliver at least one value (C11's satisfiable requests)."""
    import history
    want = (mode == "true")

    def thunk(label, mk):
        def th():
            random.seed(seed * 977 + len(label))
            vals, err = take(genf(mk()), k, seconds=20.0)
            if err == "timeout":
                return None
            judge = mk()
            for i, v in enumerate(vals):
                got = call(judge, v)
                if got != ("ok", want):
                    return {"p": label, "generate": mode, "position": i, "value": repr(v)[:200], "p(value)": repr(got)}
            if label in need_first and not vals:
                return {"p": label, "generate": mode, "position": 0, "what": "a satisfiable request gave an empty stream" + (f" ({err})" if err else "")}
            for v in vals:
                _mutate_in_place(v)
            return None
        return th
    calls = [(f"generate_{mode}({lb}), first {k} values, the containers among them then mutated by the caller", thunk(lb, mk)) for lb, mk in makers]
    # labels must be unique for need_first lookups: thunk() receives the bare label
    return history.run(calls, poison=list(poison), passes=4, seed=seed, vetted=True)
