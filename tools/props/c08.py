"""C08 — every built-in atomic predicate computes the relation it is named after.
correspondence: (1) every exported constant/factory of the library vs the model's Lemmas/Std.v definition (structurally);
                (2) p(x) on the implementation vs the model's `ev` for every atom class x parameter grid x a cross-type value
                domain (numbers incl. bool/int/float overlaps, None, str, tuples, lists, sets, dicts, nested, complex),
                for numeric, string, datetime and UUID constant sorts.
search:         an INDEPENDENT plain-Python reference evaluator (written from the names/docstrings) vs p(x)."""
import datetime
import itertools
import math
import os
import json
import operator
import re
import uuid

from common import HERE, vlib  # noqa: F401
from common import call, code_of_call, enc, eval_codes, gen, main, rng_of

import predicate as P
from predicate import predicate as PP
from predicate import standard_predicates as SP
from predicate import set_predicates as SETP
from predicate.named_predicate import NamedPredicate

NUM_VALUES = [None, True, False, 0, 1, 2, 3, 4, 5, 6, -1, 0.5, 1.5, 2.0, 2.5, 3.0, 4.5, 7.25, -0.0, "a", "", "abc", (1,), (), (1, [2]),
              1j, [], [1], [1, 2], [3, 5], [None], [[1]], set(), {1}, {1, 2}, {1, 2, 3}, {2, 3}, {}, {1: 2}, {2: 1, 3: 0}, range(2),
              [True], {None}, [1.0, 2]]
CONSTS = [0, 1, 2, 3, 5, 2.5, True]


def numeric_atoms():
    ps = []
    for c in CONSTS:
        for f in (SP.eq_p, SP.ne_p, SP.ge_p, SP.gt_p, SP.le_p, SP.lt_p, SP.has_length_p, SP.has_key_p):
            ps.append(f(c))
    for a, b in itertools.product([0, 1, 2, 3, 2.5], repeat=2):
        for f in (SP.ge_le_p, SP.ge_lt_p, SP.gt_le_p, SP.gt_lt_p):
            ps.append(f(a, b))
    for s in ((), (1,), (1, 2), (2, 3), (0, 1, 2, 3), (1, 1.0, True), (2.5,)):
        ps += [SETP.in_p(*s), SETP.not_in_p(*s), SETP.is_subset_p(set(s)), SETP.is_real_subset_p(set(s)),
               SETP.is_superset_p(set(s)), SETP.is_real_superset_p(set(s))]
    named = ["is_none_p", "is_not_none_p", "is_falsy_p", "is_truthy_p", "is_bool_p", "is_int_p", "is_float_p", "is_complex_p", "is_str_p",
             "is_list_p", "is_tuple_p", "is_set_p", "is_dict_p", "is_datetime_p", "is_uuid_p", "is_range_p", "is_callable_p",
             "is_container_p", "is_iterable_p", "is_hashable_p", "is_predicate_p", "neg_p", "zero_p", "pos_p", "eq_true_p", "eq_false_p"]
    ps += [getattr(SP, n) for n in named] + [PP.is_empty_p, PP.is_not_empty_p, PP.always_true_p, PP.always_false_p]
    el = [SP.ge_p(2), SP.is_int_p, SP.eq_p(1), SP.is_none_p, SETP.in_p(1, 2), SP.is_truthy_p]
    for e in el:
        ps += [SP.all_p(e), SP.any_p(e), SP.is_set_of_p(e), SP.is_list_of_p(e), SP.is_iterable_of_p(e), SP.is_single_or_list_of_p(e),
               SP.is_single_or_iterable_of_p(e)]
    ps += [SP.is_instance_p(int, str), SP.is_instance_p(list, tuple, set), SP.all_p(SP.all_p(SP.ge_p(1)))]
    return ps


STD_CHECKS = [  # (python object, Coq term over Lemmas/Std.v)
    ("neg_p", "neg_p"), ("zero_p", "zero_p"), ("pos_p", "pos_p"), ("eq_true_p", "eq_true_p"), ("eq_false_p", "eq_false_p"),
    ("is_bool_p", "is_bool_p"), ("is_int_p", "is_int_p"), ("is_float_p", "is_float_p"), ("is_complex_p", "is_complex_p"), ("is_str_p", "is_str_p"),
    ("is_list_p", "is_list_p"), ("is_tuple_p", "is_tuple_p"), ("is_set_p", "is_set_p"), ("is_dict_p", "is_dict_p"), ("is_datetime_p", "is_datetime_p"),
    ("is_uuid_p", "is_uuid_p"), ("is_range_p", "is_range_p"), ("is_callable_p", "is_callable_p"), ("is_container_p", "is_container_p"),
    ("is_iterable_p", "is_iterable_p"), ("is_hashable_p", "is_hashable_p"), ("is_predicate_p", "is_predicate_p"),
    ("is_none_p", "is_none_p"), ("is_not_none_p", "is_not_none_p"), ("is_falsy_p", "is_falsy_p"), ("is_truthy_p", "is_truthy_p"),
]
FACTORY_CHECKS = [  # (python expression, Coq term)
    ("eq_p(3)", "eq_p (3#1)"), ("ne_p(3)", "ne_p (3#1)"), ("ge_p(3)", "ge_p (3#1)"), ("gt_p(3)", "gt_p (3#1)"), ("le_p(3)", "le_p (3#1)"),
    ("lt_p(3)", "lt_p (3#1)"), ("ge_le_p(1, 5)", "ge_le_p (1#1) (5#1)"), ("ge_lt_p(1, 5)", "ge_lt_p (1#1) (5#1)"),
    ("gt_le_p(1, 5)", "gt_le_p (1#1) (5#1)"), ("gt_lt_p(1, 5)", "gt_lt_p (1#1) (5#1)"), ("in_p(1, 2)", "in_p [(1#1); (2#1)]"),
    ("not_in_p(1, 2)", "not_in_p [(1#1); (2#1)]"), ("is_subset_p({1, 2})", "is_subset_p [(1#1); (2#1)]"),
    ("is_real_subset_p({1, 2})", "is_real_subset_p [(1#1); (2#1)]"), ("is_superset_p({1, 2})", "is_superset_p [(1#1); (2#1)]"),
    ("is_real_superset_p({1, 2})", "is_real_superset_p [(1#1); (2#1)]"), ("all_p(ge_p(1))", "all_p (ge_p (1#1))"),
    ("any_p(ge_p(1))", "any_p (ge_p (1#1))"), ("has_length_p(2)", "has_length_p (2#1)"), ("has_key_p(2)", "has_key_p (2#1)"),
    ("is_set_of_p(ge_p(1))", "is_set_of_p (ge_p (1#1))"), ("is_list_of_p(ge_p(1))", "is_list_of_p (ge_p (1#1))"),
    ("is_iterable_of_p(ge_p(1))", "is_iterable_of_p (ge_p (1#1))"), ("is_single_or_list_of_p(ge_p(1))", "is_single_or_list_of_p (ge_p (1#1))"),
    ("is_single_or_iterable_of_p(ge_p(1))", "is_single_or_iterable_of_p (ge_p (1#1))"), ("is_instance_p(int, str)", "is_instance_p [1%nat; 4%nat]"),
    ("ge_p(1) & le_p(2)", "op_and (ge_p (1#1)) (le_p (2#1))"), ("ge_p(1) | le_p(2)", "op_or (ge_p (1#1)) (le_p (2#1))"),
    ("ge_p(1) ^ le_p(2)", "op_xor (ge_p (1#1)) (le_p (2#1))"), ("~ge_p(1)", "op_invert (ge_p (1#1))"),
    ("is_empty_p", "is_empty_p"), ("is_not_empty_p", "is_not_empty_p"),
]


def other_sort_cases():
    """(ctx, atoms, values) for string / datetime / UUID constants"""
    out = []
    strs = ["", "a", "ab", "b", "ba", "c"]
    d0 = datetime.datetime(2020, 1, 1)
    dts = [d0 + datetime.timedelta(days=i) for i in range(4)]
    us = [uuid.UUID(int=i * 1000 + 7) for i in range(4)]
    for consts in (strs, dts, us):
        cx = enc.Ctx(strings=consts)
        ats = []
        for c in consts[1:4]:
            ats += [f(c) for f in (SP.eq_p, SP.ne_p, SP.ge_p, SP.gt_p, SP.le_p, SP.lt_p)]
        ats += [SP.ge_le_p(consts[1], consts[3]), SP.gt_lt_p(consts[1], consts[3]), SP.ge_lt_p(consts[2], consts[2]),
                SETP.in_p(consts[1], consts[2]), SETP.not_in_p(consts[1])]
        vals = list(consts) + [None, 3, 2.5, (1,), [consts[1]], True]
        if consts is strs:
            vals = [v for v in vals if not isinstance(v, list)]   # a list holding a str of the sort: the str would be VQ, fine, but keep it simple
        out.append((cx, ats, vals))
    return out


def correspondence(payload):
    rng = rng_of(payload)
    mism = []
    # (1) constants and factories against Lemmas/Std.v
    cx = enc.Ctx()
    ns = {}
    for m in (P, SP, SETP, PP):
        ns.update({k: getattr(m, k) for k in dir(m) if not k.startswith("_")})
    items, desc = [], []
    for name, coq in STD_CHECKS:
        items.append(f"({coq}, {cx.pred(ns[name])})")
        desc.append(name)
    for expr, coq in FACTORY_CHECKS:
        items.append(f"({coq}, {cx.pred(eval(expr, ns))})")  # noqa: S307
        desc.append(expr)
    codes = eval_codes("c08a", "From PP Require Import Lemmas.Std Lemmas.Trace.\nOpen Scope Q_scope.\n", items,
                       "Definition run (c : pred*pred) : nat := if same (fst c) (snd c) then 0%nat else 1%nat.")
    mism += [{"case": "Std definition differs from the library object", "name": desc[i]} for i, c in enumerate(codes) if c != 0]
    n1 = len(items)
    # (2) call semantics
    items, exp, d2 = [], [], []
    for p in numeric_atoms():
        for x in NUM_VALUES:
            try:
                items.append(f"({cx.pred(p)}, {cx.val(x)})")
            except enc.Unencodable:
                continue
            exp.append(code_of_call(p, x))
            d2.append((repr(p), repr(x)))
    if payload["tier"] == "quick":
        idx = sorted(rng.sample(range(len(items)), min(7000, len(items))))
        items, exp, d2 = [items[i] for i in idx], [exp[i] for i in idx], [d2[i] for i in idx]
    codes = eval_codes("c08b", "", items, "Definition run (c : pred*val) : nat := opt_bool_code (ev W0 (fst c) (snd c)).", chunk=1500)
    mism += [{"case": "call semantics", "p": d2[i][0], "x": d2[i][1], "model": c, "impl": exp[i]} for i, c in enumerate(codes) if c != exp[i]]
    n2 = len(items)
    dist = {0: exp.count(0), 1: exp.count(1), 2: exp.count(2)}
    n3 = 0
    for cx2, ats, vals in other_sort_cases():
        items, exp3, d3 = [], [], []
        for p in ats:
            for x in vals:
                try:
                    items.append(f"({cx2.pred(p)}, {cx2.val(x)})")
                except enc.Unencodable:
                    continue
                exp3.append(code_of_call(p, x))
                d3.append((repr(p), repr(x)))
        codes = eval_codes("c08c", "", items, "Definition run (c : pred*val) : nat := opt_bool_code (ev W0 (fst c) (snd c)).", chunk=1500)
        mism += [{"case": "call semantics (non-numeric constant sort)", "p": d3[i][0], "x": d3[i][1], "model": c, "impl": exp3[i]}
                 for i, c in enumerate(codes) if c != exp3[i]]
        n3 += len(items)
    # (4) is_tuple_of_p against Lemmas/TupleOf.v (a list-valued field: not a constructor of `pred`)
    import ast as _ast
    tsrc = _ast.unparse(_ast.parse(open(os.path.join(vlib.REPO, "predicate/tuple_of_predicate.py")).read()))
    want_fp = json.load(open(os.path.join(HERE, "fingerprints", "c08_tuple_of.json"))).get("source") if os.path.exists(os.path.join(HERE, "fingerprints", "c08_tuple_of.json")) else None
    if want_fp != tsrc:
        mism.append({"case": "fingerprint", "file": "predicate/tuple_of_predicate.py", "note": "Lemmas/TupleOf.v was written against another text"})
    comps = [SP.is_int_p, SP.is_str_p, SP.ge_p(2), SP.eq_p(1), SP.is_none_p, PP.always_false_p, SP.lt_p(3), SETP.in_p(1, 2)]
    tvals = [(), (1,), (1, 2), (1, "a"), ("a", 1), (3, 3), (1, None), (None, 1), [1, 2], [1], {1: 2}, {3}, "ab", "", 5, None, (1, 2, 3), ("a", "b"), (2.5, 1)]
    items, exp4, d4 = [], [], []
    for k in (0, 1, 2, 3):
        combos = list(itertools.product(comps, repeat=k))
        if k == 3:
            combos = rng.sample(combos, 60)
        for ps_ in combos:
            tp = SP.is_tuple_of_p(*ps_)
            for x in tvals:
                try:
                    items.append("([" + "; ".join(cx.pred(q) for q in ps_) + "], " + cx.val(x) + ")")
                except enc.Unencodable:
                    continue
                exp4.append(code_of_call(tp, x))
                d4.append((repr(tp), repr(x)))
    codes = eval_codes("c08d", "From PP Require Import Lemmas.TupleOf.\nOpen Scope Q_scope.\n", items,
                       "Definition run (c : list pred * val) : nat := opt_bool_code (tuple_of_call W0 (fst c) (snd c)).", chunk=1500)
    mism += [{"case": "is_tuple_of_p call semantics", "p": d4[i][0], "x": d4[i][1], "model": c, "impl": exp4[i]} for i, c in enumerate(codes) if c != exp4[i]]
    n3 += len(items)
    # (5) is_dict_of_p against Lemmas/DictOf.v (a list of (key predicate, value predicate) pairs; a dict = its items in insertion order)
    dsrc = _ast.unparse(_ast.parse(open(os.path.join(vlib.REPO, "predicate/dict_of_predicate.py")).read()))
    fpd = os.path.join(HERE, "fingerprints", "c09_dict_of.json")
    if not os.path.exists(fpd) or json.load(open(fpd)).get("source") != dsrc:
        mism.append({"case": "fingerprint", "file": "predicate/dict_of_predicate.py", "note": "Lemmas/DictOf.v was written against another text"})
    kcomps = [(SP.eq_p(1), SP.eq_p(5)), (SP.ge_p(0), SP.ge_p(7)), (SP.is_int_p, SP.is_int_p), (SP.eq_p(2), SP.is_none_p), (SP.is_none_p, SP.lt_p(3)), (PP.always_false_p, SP.eq_p(1)),
              (SETP.in_p(1, 2), SP.is_str_p), (SP.is_str_p, SP.ge_p(2))]
    dvals5 = [{}, {1: 5}, {1: 5, 0: 7}, {0: 7, 1: 5}, {1: 3, 2: None}, {2: None}, {1: None}, {None: 1}, {None: None}, {1: True, 1.5: 2.5}, {4: 4, 1: 1, 3: 3, 2: 2}, {"a": 1}, {"a": 2, 1: "b"},
              {2: "x", 1: "y"}, {0: 9, 3: 7, 1: 5}]
    items, exp5, d5 = [], [], []
    for k in (0, 1, 2, 3):
        combos = list(itertools.product(kcomps, repeat=k))
        if k == 3:
            combos = rng.sample(combos, 40)
        for kvs_ in combos:
            dp = SP.is_dict_of_p(*kvs_)
            for x in dvals5:
                try:
                    items.append("([" + "; ".join(f"({cx.pred(a)}, {cx.pred(b)})" for a, b in kvs_) + "], [" + "; ".join(f"({cx.val(a)}, {cx.val(b)})" for a, b in x.items()) + "])")
                except enc.Unencodable:
                    continue
                exp5.append(code_of_call(dp, x))
                d5.append(("is_dict_of_p(" + ", ".join(f"({a!r}, {b!r})" for a, b in kvs_) + ")", repr(x)))
    codes = eval_codes("c08e", "From PP Require Import Lemmas.DictOf.\nOpen Scope Q_scope.\n", items,
                       "Definition run (c : list kvpred * list item) : nat := opt_bool_code (dict_of_items W0 (fst c) (snd c)).", chunk=1500)
    mism += [{"case": "is_dict_of_p call semantics", "p": d5[i][0], "x": d5[i][1], "model": c, "impl": exp5[i]} for i, c in enumerate(codes) if c != exp5[i]]
    n3 += len(items)
    return {"evaluations": n1 + n2 + n3, "distinct_nontrivial": len(set(d2)), "dict_of_calls_compared": len(items),
            "rule": "every exported constant/factory vs Lemmas/Std.v; p(x) vs the model's ev for ~330 atoms (every class, constants {0,1,2,3,5,2.5,True}, "
                    "all bound orders, empty/singleton/overlapping sets, type tests, quantified and 'of' forms) x a 44-value cross-type domain, plus "
                    "str/datetime/UUID constant sorts; outcome codes 0/1/2 = False/True/raises",
            "outcome_distribution": dist,
            "samples": [{"p": d2[i][0], "x": d2[i][1], "outcome": exp[i]} for i in range(0, len(d2), max(1, len(d2) // 5))][:5],
            "mismatches": mism[:20]}


# ------------------------------------------------------------ independent reference evaluator (plain Python)
def ref(p, x):
    """what the atom should answer, written from its name/docstring; raises what plain Python raises"""
    T = type(p).__name__
    cmp_ = {"EqPredicate": operator.eq, "NePredicate": operator.ne, "GePredicate": operator.ge, "GtPredicate": operator.gt,
            "LePredicate": operator.le, "LtPredicate": operator.lt}
    if T in cmp_:
        return cmp_[T](x, p.v)
    if T == "GeLePredicate":
        return p.lower <= x and x <= p.upper
    if T == "GeLtPredicate":
        return p.lower <= x and x < p.upper
    if T == "GtLePredicate":
        return p.lower < x and x <= p.upper
    if T == "GtLtPredicate":
        return p.lower < x and x < p.upper
    if T == "InPredicate":
        return x in set(p.v)
    if T == "NotInPredicate":
        return not (x in set(p.v))
    if T == "IsSubsetPredicate":
        return x <= p.v
    if T == "IsRealSubsetPredicate":
        return x <= p.v and x != p.v
    if T == "IsSupersetPredicate":
        return x >= p.v
    if T == "IsRealSupersetPredicate":
        return x >= p.v and x != p.v
    if T == "IsInstancePredicate":
        return isinstance(x, p.klass)
    if T == "IsNonePredicate":
        return x is None
    if T == "IsNotNonePredicate":
        return x is not None
    if T == "IsFalsyPredicate":
        return not x
    if T == "IsTruthyPredicate":
        return bool(x)
    if T == "IsEmptyPredicate":
        return len(list(x)) == 0
    if T == "IsNotEmptyPredicate":
        return len(list(x)) != 0
    if T == "AlwaysTruePredicate":
        return True
    if T == "AlwaysFalsePredicate":
        return False
    if T == "AllPredicate":
        for i in x:
            if not ref(p.predicate, i):
                return False
        return True
    if T == "SetOfPredicate":
        for i in x:
            if not ref(p.predicate, i):
                return False
        return True
    if T == "AnyPredicate":
        for i in x:
            if ref(p.predicate, i):
                return True
        return False
    if T == "AndPredicate":
        return ref(p.left, x) and ref(p.right, x)
    if T == "OrPredicate":
        return ref(p.left, x) or ref(p.right, x)
    if T == "HasLengthPredicate":
        return len(list(x)) == p.length
    if T == "HasKeyPredicate":
        return p.key in x.keys()
    if T == "RegexPredicate":
        return re.match(p.pattern, x, p.flags) is not None
    if T == "DictOfPredicate":
        # "tests if the value is of type dict and the key and values match the predicates" + the two comments of the class:
        # every item is accepted by some (key, value) pair; no pair whose key predicate accepts an item's key is contradicted by its value;
        # an empty dict only for an empty list of pairs
        if not isinstance(x, dict):
            return False
        kvs = list(p.key_value_predicates)
        if not x and kvs:
            return False
        for k_, v_ in x.items():
            if not any(ref(kp, k_) and ref(vp, v_) for kp, vp in kvs):
                return False
        for kp, vp in kvs:
            if any(ref(kp, k_) and not ref(vp, v_) for k_, v_ in x.items()):
                return False
        return True
    if T == "TupleOfPredicate":
        xs = list(x)
        return len(xs) == len(p.predicates) and all(ref(q, v) for q, v in zip(p.predicates, xs))
    raise NotImplementedError(T)


def ref_call(p, x):
    try:
        return ("ok", bool(ref(p, x)))
    except NotImplementedError:
        return None
    except Exception as e:  # noqa: BLE001
        return ("raise", type(e).__name__)


from optcommon import skey as _skey  # noqa: E402


def search(payload):
    fails, n = [], 0
    ps = numeric_atoms()
    ps += [SP.regex_p("^a"), SP.regex_p("b$"), SP.regex_p("a.c"), SP.is_tuple_of_p(SP.is_int_p, SP.ge_p(2)), SP.is_tuple_of_p()]
    vals = NUM_VALUES + ["abc", "bab", "xabc", "a\nc", (1, 2), (1, 1), ("a", 3), (1, 2, 3)]
    for _cx, ats, vs in other_sort_cases():
        for p in ats:
            for x in vs:
                ps_x = ref_call(p, x)
                if ps_x is None:
                    continue
                n += 1
                got = call(p, x)
                got = (got[0], bool(got[1])) if got[0] == "ok" else ("raise", got[1])
                if got[0] != ps_x[0] or (got[0] == "ok" and got[1] != ps_x[1]):
                    fails.append({"p": repr(p), "x": repr(x), "implementation": repr(got), "reference": repr(ps_x)})
    # is_dict_of_p (an exported 'of' form with several (key, value) pairs): literal, overlapping and predicate-valued keys
    dps = [SP.is_dict_of_p(("name", SP.is_str_p), ("age", SP.is_int_p)), SP.is_dict_of_p((SP.is_str_p, SP.is_int_p), ("age", SP.ge_p(0))),
           SP.is_dict_of_p(("age", SP.ge_p(0)), (SP.is_str_p, SP.is_int_p)), SP.is_dict_of_p((SP.eq_p(1), SP.eq_p(5)), (SP.ge_p(0), SP.ge_p(7))), SP.is_dict_of_p(),
           SP.is_dict_of_p((SP.is_int_p, SP.is_int_p)), SP.is_dict_of_p(("a", SP.is_int_p), ("a", SP.is_str_p)), SP.is_dict_of_p((SP.is_none_p, SP.is_none_p), ("k", SP.is_truthy_p))]
    dvals = [{}, {"name": "n", "age": 3}, {"age": 3, "name": "n"}, {"name": "n"}, {"age": -1, "n": 2}, {"age": 3, "n": 2}, {"age": 2.5}, {"age": 3, "n": "x"}, {1: 5}, {1: 5, 0: 7},
             {1: 5, 3: 9}, {0: 7}, {1: 4}, {"a": 1}, {"a": "s"}, {"a": None}, {None: None}, {None: None, "k": 1}, {"k": 0}, {2: 2, 3: 4}, {2: "x"}, [("a", 1)], "name", None, 3, {"x": {}}]
    ps = ps + dps
    vals = vals + dvals
    for p in ps:
        for x in vals:
            r = ref_call(p, x)
            if r is None:
                continue
            n += 1
            got = call(p, x)
            got = (got[0], bool(got[1])) if got[0] == "ok" else ("raise", got[1])
            if got[0] != r[0] or (got[0] == "ok" and got[1] != r[1]):
                fails.append({"p": repr(p), "p_structure": str(_skey(p)), "x": repr(x), "implementation": repr(got), "reference": repr(r)})
                break
        if len(fails) >= 5:
            break
    # HISTORY on ONE object: the same predicate asked about inputs that are == but of different types, one after the other, in both orders
    # (an answer remembered for 1 must not be given for 1.0 or True)
    seq_ps = [SP.is_set_of_p(SP.is_int_p), SP.is_set_of_p(SP.is_bool_p), SP.is_set_of_p(SP.is_float_p), SP.all_p(SP.is_int_p), SP.any_p(SP.is_bool_p), SP.is_tuple_of_p(SP.is_int_p, SP.is_float_p),
              SP.is_list_of_p(SP.is_int_p), SP.is_int_p, SP.is_bool_p, SP.is_float_p, SETP.in_p(1, 2), SP.eq_p(1), SP.is_instance_p(int, str)]
    seq_xs = [{1, 2, 3}, {1.0}, {True, False}, {1}, {0.0}, {0}, (1, 1.0), (1.0, 1), (True, 1.0), [1, 2], [1.0, 2], [True], 1, 1.0, True, 0, 0.0, False, {2.0, 3}]
    for p in seq_ps:
        for xs in (seq_xs, seq_xs[::-1]):
            for i, x in enumerate(xs):
                r = ref_call(p, x)
                if r is None:
                    continue
                n += 1
                got = call(p, x)
                got = (got[0], bool(got[1])) if got[0] == "ok" else ("raise", got[1])
                if got[0] != r[0] or (got[0] == "ok" and got[1] != r[1]):
                    fails.append({"p": repr(p), "p_structure": str(_skey(p)), "x": repr(x), "implementation": repr(got), "reference": repr(r),
                                  "history": f"ONE predicate object, asked about {xs[:i]!r} before (in this order)"})
                    break
            else:
                continue
            break
    # the exported FACTORIES against the relation each is named after (the reference above is derived from the returned OBJECT,
    # so a factory that returns another object than it should would go unnoticed there)
    import operator as op_
    nums = [0, 1, 2, 3, 2.5, -1]
    probes = [-2, -1, 0, 0.5, 1, 1.5, 2, 2.5, 3, 3.5, 4, True, False]
    fac = []
    for c in nums:
        for name, rel in (("eq_p", op_.eq), ("ne_p", op_.ne), ("ge_p", op_.ge), ("gt_p", op_.gt), ("le_p", op_.le), ("lt_p", op_.lt)):
            fac.append((f"{name}({c!r})", getattr(SP, name)(c), lambda x, rel=rel, c=c: rel(x, c)))
    for a, b in itertools.product(nums, repeat=2):
        for name, lo, hi in (("ge_le_p", op_.ge, op_.le), ("ge_lt_p", op_.ge, op_.lt), ("gt_le_p", op_.gt, op_.le), ("gt_lt_p", op_.gt, op_.lt)):
            fac.append((f"{name}({a!r}, {b!r})", getattr(SP, name)(a, b), lambda x, lo=lo, hi=hi, a=a, b=b: lo(x, a) and hi(x, b)))
    for sset in ((), (1,), (1, 2), (0, 1, 2, 3), (2.5,)):
        fac.append((f"in_p{sset!r}", SETP.in_p(*sset), lambda x, sset=sset: x in sset))
        fac.append((f"not_in_p{sset!r}", SETP.not_in_p(*sset), lambda x, sset=sset: x not in sset))
    for name, p_, rel in fac:
        for x in probes:
            n += 1
            got = call(p_, x)
            if got != ("ok", rel(x)):
                fails.append({"p": name, "returned_object": repr(p_), "x": repr(x), "implementation": repr(got), "reference": repr(("ok", rel(x)))})
                break
        if len(fails) >= 5:
            break
    # members that are themselves containers, the SAME nan object, keys with falsy / None values
    nan_ = math.nan
    for name, p_, x, want in (
            ("in_p((1, 2))", SETP.in_p((1, 2)), (1, 2), True), ("in_p((1, 2))", SETP.in_p((1, 2)), 1, False), ("in_p(())", SETP.in_p(()), (), True),
            ("in_p(frozenset({1}))", SETP.in_p(frozenset({1})), frozenset({1}), True), ("in_p(frozenset({1}))", SETP.in_p(frozenset({1})), 1, False),
            ("not_in_p((1, 2))", SETP.not_in_p((1, 2)), (1, 2), False), ("not_in_p((1, 2))", SETP.not_in_p((1, 2)), 1, True),
            ("in_p('ab')", SETP.in_p("ab"), "a", False), ("in_p('ab')", SETP.in_p("ab"), "ab", True),
            ("eq_p(nan)", SP.eq_p(nan_), nan_, nan_ == nan_), ("ne_p(nan)", SP.ne_p(nan_), nan_, nan_ != nan_), ("eq_p(nan)", SP.eq_p(nan_), float("nan"), False),
            ("ge_p(nan)", SP.ge_p(nan_), nan_, nan_ >= nan_), ("le_p(1)", SP.le_p(1), nan_, nan_ <= 1),
            ("has_key_p('x')", SP.has_key_p("x"), {"x": None}, True), ("has_key_p('x')", SP.has_key_p("x"), {"x": 0}, True), ("has_key_p('x')", SP.has_key_p("x"), {"x": ""}, True),
            ("has_key_p('x')", SP.has_key_p("x"), {"y": 1}, False), ("has_key_p(None)", SP.has_key_p(None), {None: 1}, True), ("has_key_p(0)", SP.has_key_p(0), {False: 1}, True),
            ("has_length_p(0)", SP.has_length_p(0), [], True), ("has_length_p(1)", SP.has_length_p(1), [None], True), ("has_length_p(2)", SP.has_length_p(2), "ab", True),
            ("is_empty_p", PP.is_empty_p, [None], False), ("is_empty_p", PP.is_empty_p, [0], False), ("is_not_empty_p", PP.is_not_empty_p, [""], True),
            ("is_empty_p", PP.is_empty_p, {0: 0}, False), ("is_truthy_p", SP.is_truthy_p, [0], True), ("is_falsy_p", SP.is_falsy_p, 0.0, True)):
        n += 1
        got = call(p_, x)
        if got != ("ok", want):
            fails.append({"p": name, "returned_object": repr(p_), "x": repr(x), "implementation": repr(got), "reference": repr(("ok", want))})
    # LARGE inputs: generators (no len) of batch-boundary lengths, ints beyond 2**53 against float bounds, non-ASCII text, long strings
    for L in (0, 1, 255, 256, 257, 300, 512, 768, 1024):
        for have in (L - 1, L, L + 1, L + 44, 2 * L):
            if have < 0:
                continue
            n += 1
            got = call(SP.has_length_p(L), (i for i in range(have)))
            if got != ("ok", have == L):
                fails.append({"p": f"has_length_p({L})", "x": f"(i for i in range({have}))", "implementation": repr(got), "reference": repr(("ok", have == L))})
                break
    for name, p_, x, want in (
            ("ge_le_p(2**53 + 1, 1e17)", SP.ge_le_p(2 ** 53 + 1, 1e17), 2 ** 53, False), ("ge_le_p(2**53 + 1, 1e17)", SP.ge_le_p(2 ** 53 + 1, 1e17), 2 ** 53 + 1, True),
            ("gt_le_p(0.5, 2**64 + 1)", SP.gt_le_p(0.5, 2 ** 64 + 1), 2 ** 64 + 1, True), ("gt_le_p(0.5, 2**64 + 1)", SP.gt_le_p(0.5, 2 ** 64 + 1), 2 ** 64 + 2, False),
            ("ge_p(2**64)", SP.ge_p(2 ** 64), 2 ** 64 - 1, False), ("lt_p(10**30)", SP.lt_p(10 ** 30), 10 ** 30 - 1, True), ("eq_p(2**53 + 1)", SP.eq_p(2 ** 53 + 1), float(2 ** 53), False),
            ("eq_p(0.3)", SP.eq_p(0.3), 0.1 + 0.2, False), ("ne_p(1e16)", SP.ne_p(1e16), 1e16 + 2.0, True), ("in_p(*range(32))", SETP.in_p(*range(32)), 32, False),
            ("not_in_p(*range(1900, 2000))", SETP.not_in_p(*range(1900, 2000)), 2000, True), ("not_in_p(*range(1900, 2000))", SETP.not_in_p(*range(1900, 2000)), 1999, False),
            ("in_p(*range(1024, 65536))", SETP.in_p(*range(1024, 65536)), 65536, False), ("in_p(*range(64))", SETP.in_p(*range(64)), 3.5, False),
            ('regex_p(r"\\w+$")', SP.regex_p(r"\w+$"), "café", True), ('regex_p(r"\\d+")', SP.regex_p(r"\d+"), "٣٤", True), ('regex_p(r"\\W")', SP.regex_p(r"\W"), "é", False),
            ('regex_p("^a")', SP.regex_p("^a"), "a" * 5000, True), ("is_subset_p(set(range(100)))", SETP.is_subset_p(set(range(100))), {99, 100}, False),
            ("is_real_subset_p(set(range(50)))", SETP.is_real_subset_p(set(range(50))), set(range(50)), False)):
        n += 1
        got = call(p_, x)
        if got != ("ok", want):
            fails.append({"p": name, "x": repr(x)[:80], "implementation": repr(got), "reference": repr(("ok", want))})
    # the 'of' forms on elements that are == across types, and atoms that were inside a tree the optimizer has seen
    for name, p_, x, want in (
            ("is_list_of_p(is_int_p)", SP.is_list_of_p(SP.is_int_p), [1, 1.0], False), ("is_list_of_p(is_int_p)", SP.is_list_of_p(SP.is_int_p), [1.0, 1], False),
            ("is_list_of_p(is_bool_p)", SP.is_list_of_p(SP.is_bool_p), [True, False, 1], False), ("is_iterable_of_p(is_float_p)", SP.is_iterable_of_p(SP.is_float_p), (1.0, 1), False),
            ("all_p(is_int_p)", SP.all_p(SP.is_int_p), [1, 1, 1.0], False), ("is_set_of_p(is_int_p)", SP.is_set_of_p(SP.is_int_p), {1, 2}, True),
            ("any_p(is_float_p)", SP.any_p(SP.is_float_p), [1, 1.0], True), ("is_list_of_p(eq_p(1))", SP.is_list_of_p(SP.eq_p(1)), [1, 1.0, True], True)):
        n += 1
        got = call(p_, x)
        if got != ("ok", want):
            fails.append({"p": name, "x": repr(x), "implementation": repr(got), "reference": repr(("ok", want))})
    from predicate import optimize as _optimize
    a_ = SETP.in_p(1, 2)
    b_ = SETP.not_in_p(1, 2)
    for other in (SETP.in_p(3, 4), SETP.not_in_p(3, 4), SP.eq_p(3), SP.ne_p(3)):
        for t in (a_ | other, other | a_, a_ & other, b_ & other, b_ | other, other & b_, a_ ^ other):
            try:
                _optimize(t)
            except Exception:  # noqa: BLE001
                pass
    for x in (1, 2, 3, 4, 5):
        n += 2
        if call(a_, x) != ("ok", x in (1, 2)) or call(b_, x) != ("ok", x not in (1, 2)):
            fails.append({"p": "in_p(1, 2) / not_in_p(1, 2) after optimize() ran on trees containing them", "x": repr(x),
                          "implementation": repr((call(a_, x), call(b_, x))), "reference": repr((x in (1, 2), x not in (1, 2)))})
            break
    sets = [set(), {1}, {1, 2}, {2, 3}, {1, 2, 3}]
    for v in sets:
        for name, rel in (("is_subset_p", lambda x, v: x <= v), ("is_real_subset_p", lambda x, v: x < v),
                          ("is_superset_p", lambda x, v: x >= v), ("is_real_superset_p", lambda x, v: x > v)):
            p_ = getattr(SETP, name)(set(v))
            for x in sets + [{4}, {1, 4}]:
                n += 1
                got = call(p_, set(x))
                if got != ("ok", rel(set(x), v)):
                    fails.append({"p": f"{name}({v!r})", "returned_object": repr(p_), "x": repr(x), "implementation": repr(got), "reference": repr(rel(set(x), v))})
                    break
    # math tests and the dict-depth comparisons
    pass  # (math is imported at module level)
    import operator as op2_
    for x in (0, 1.5, -2, float("inf"), float("-inf"), float("nan"), 1e308, True):
        for name, ref in (("is_finite_p", math.isfinite), ("is_inf_p", math.isinf), ("is_nan_p", math.isnan)):
            n += 1
            if call(getattr(SP, name), x) != ("ok", ref(x)):
                fails.append({"p": name, "x": repr(x), "implementation": repr(call(getattr(SP, name), x)), "reference": ref(x)})

    def ref_depth(v):           # nesting depth of dict values / list items as documented: a scalar (or empty dict) counts 1, an empty list 0
        if isinstance(v, list):
            return 1 + max(ref_depth(i) for i in v) if v else 0
        if isinstance(v, dict) and v:
            return 1 + max(ref_depth(i) for i in v.values())
        return 1
    dicts = [{}, {"a": 1}, {"a": {"b": 1}}, {"a": {"b": {"c": 1}}, "d": 2}, {"a": [1, {"b": 2}]}, {"a": []}, {"a": {}}, {"x": [[1]], "y": {"z": [2]}}]
    for d in dicts:
        for k in range(0, 5):
            for name, rel in (("depth_eq_p", op2_.eq), ("depth_ne_p", op2_.ne), ("depth_le_p", op2_.le), ("depth_lt_p", op2_.lt),
                              ("depth_ge_p", op2_.ge), ("depth_gt_p", op2_.gt)):
                n += 1
                got = call(getattr(SP, name)(k), d)
                if got != ("ok", rel(ref_depth(d), k)):
                    fails.append({"p": f"{name}({k})", "x": repr(d), "implementation": repr(got), "reference": f"depth {ref_depth(d)} {rel.__name__} {k}"})
    # the ip-address property predicates and subnet/supernet agree with the ipaddress module, name by name
    import ipaddress
    from predicate import ip_address_predicates as IPP
    samples = {
        "ipv4_address": [ipaddress.IPv4Address(a) for a in ("0.0.0.0", "8.8.8.8", "10.1.2.3", "127.0.0.1", "169.254.1.1", "192.168.0.1", "224.0.0.1", "240.0.0.1", "255.255.255.255", "100.64.0.1")],
        "ipv6_address": [ipaddress.IPv6Address(a) for a in ("::", "::1", "2001:db8::1", "fe80::1", "fec0::1", "ff02::1", "2607:f8b0::1", "fc00::1", "64:ff9b::1")],
        "ipv4_network": [ipaddress.IPv4Network(a) for a in ("0.0.0.0/32", "8.8.8.0/24", "10.0.0.0/8", "127.0.0.0/8", "169.254.0.0/16", "192.168.1.0/24", "224.0.0.0/4", "240.0.0.0/4")],
        "ipv6_network": [ipaddress.IPv6Network(a) for a in ("::/128", "::1/128", "2001:db8::/32", "fe80::/10", "fec0::/10", "ff00::/8", "2607:f8b0::/32", "fc00::/7")],
    }
    for name in sorted(dir(IPP)):
        m = re.fullmatch(r"is_(ipv[46]_(?:address|network))_(\w+)_p", name)
        if not m:
            continue
        for obj in samples[m.group(1)]:
            n += 1
            want = getattr(obj, "is_" + m.group(2))
            got = call(getattr(IPP, name), obj)
            if got != ("ok", want):
                fails.append({"p": name, "x": repr(obj), "implementation": repr(got), "reference": f"{obj!r}.is_{m.group(2)} = {want}"})
                break
    nets = samples["ipv4_network"] + [ipaddress.IPv4Network("10.1.0.0/16"), ipaddress.IPv4Network("10.1.2.0/24")]
    for a in nets:
        for b in nets:
            n += 2
            if call(IPP.subnet_of_p(a), b) != ("ok", b.subnet_of(a)) or call(IPP.supernet_of_p(a), b) != ("ok", b.supernet_of(a)):
                fails.append({"p": f"subnet_of_p/supernet_of_p({a})", "x": repr(b), "implementation": repr((call(IPP.subnet_of_p(a), b), call(IPP.supernet_of_p(a), b))),
                              "reference": repr((b.subnet_of(a), b.supernet_of(a)))})
                break
    # str tests agree with the str methods
    from predicate import str_predicates as STR
    for name, meth in (("is_alnum_p", str.isalnum), ("is_alpha_p", str.isalpha), ("is_ascii_p", str.isascii), ("is_decimal_p", str.isdecimal),
                       ("is_digit_p", str.isdigit), ("is_identifier_p", str.isidentifier), ("is_lower_p", str.islower),
                       ("is_numeric_p", str.isnumeric), ("is_printable_p", str.isprintable), ("is_space_p", str.isspace),
                       ("is_title_p", str.istitle), ("is_upper_p", str.isupper)):
        import keyword as _kw
        for sx in ["", "a", "A", "Ab", "a1", "12", " ", "\t", "é", "a b", "Hello World", "_x", "½", "ǅ", "ß", "İ", "٣", "²", "x\u0301", "\u2003", "None", "True"] + list(_kw.kwlist) + list(getattr(_kw, "softkwlist", [])):
            n += 1
            if getattr(STR, name)(sx) != meth(sx):
                fails.append({"p": name, "x": repr(sx), "implementation": getattr(STR, name)(sx), "reference": meth(sx)})
    for sx in ("abc", "", "xab"):
        n += 2
        if STR.starts_with_p("ab")(sx) != sx.startswith("ab") or STR.ends_with_p("ab")(sx) != sx.endswith("ab"):
            fails.append({"p": "starts_with_p/ends_with_p('ab')", "x": sx})
    return {"evaluations": n, "failures": fails[:5], "known_hits": [], "samples": [{"p": "ge_le_p(1, 5)", "x": 5, "reference": True}]}


def replay(payload):
    return {"fails": True, "input": payload["replay"].get("input")}


if __name__ == "__main__":
    main({"correspondence": correspondence, "search": search, "replay": replay})
