"""C03 — optimize() preserves quantified, emptiness and set-inclusion predicates."""
import itertools

from common import call, gen, main, rng_of
import optcommon as oc


def makers():
    elem = gen.scalar_atom_makers(consts=[1, 2, 3], with_fn=False)
    elem = elem[:18] + elem[-16:]
    coll = gen.coll_atom_makers(elem)
    nested = [lambda m=m: gen.all_p(m()) for m in coll[:6]] + [lambda m=m: gen.any_p(m()) for m in coll[:6]]
    return coll + nested, gen.set_atom_makers()


ELEMS = [0, 1, 2, 3, None, "a", 2.5, True]


def collections(thorough):
    out = []
    n = 3 if thorough else 2
    for k in range(n + 1):
        for items in itertools.product(ELEMS[:6] if k >= 3 else ELEMS, repeat=k):
            out.append(list(items))
            if k <= 2:
                out.append(tuple(items))
            try:
                out.append(set(items))
            except TypeError:
                pass
    out += [[[1], []], [[], [2, 3]], ([1, 2], [3]), 5, None, "ab"]
    out += [Bag([]), Bag([1, 2]), Bag([0]), TruthyBag([]), TruthyBag([3]), FalsyBag([1])]      # a user's re-iterable collections: only __iter__ (and a __bool__ of their own)
    return out


class Bag:
    """a finite re-iterable collection that offers nothing but __iter__"""

    def __init__(self, items):
        self.items = list(items)

    def __iter__(self):
        return iter(self.items)

    def __repr__(self):
        return f"{type(self).__name__}({self.items!r})"


class TruthyBag(Bag):
    def __bool__(self):
        return True


class FalsyBag(Bag):
    def __bool__(self):
        return False


def full_family():
    """the deterministic input family of C03: every atom, its negation, and every (atom op atom) pair of both grids"""
    coll, sets = makers()
    trees = []
    for mk in (coll, sets):
        trees += [gen.mk(op, mk[a](), mk[b]()) for a in range(len(mk)) for b in range(len(mk)) for op in ("and", "or", "xor")]
        for m in mk:
            trees += [m(), gen.mk("not", m())]
    return trees, collections(True), False


def trees_for(payload, for_search=False, flags=False):
    rng = rng_of(payload)
    thorough = payload["tier"] == "thorough" or (for_search and payload.get("deep"))
    coll, sets = makers()
    trees, family = [], []
    for mk in (coll, sets):
        pairs = [(a, b, op) for a in range(len(mk)) for b in range(len(mk)) for op in ("and", "or", "xor")]
        for a, b, op in (pairs if thorough and len(pairs) < 20000 else rng.sample(pairs, min(len(pairs), 6000 if thorough else 1200))):
            trees.append(gen.mk(op, mk[a](), mk[b]()))
        for m in mk:
            trees.append(m())
            trees.append(gen.mk("not", m()))
        family += [True] * (len(trees) - len(family))
        for _ in range(4000 if thorough else 600):
            trees.append(gen.build(gen.random_shape(rng, len(mk), rng.choice([2, 3])), mk))
        family += [False] * (len(trees) - len(family))
    if flags:
        return trees, family
    return trees


def correspondence(payload):
    return oc.correspondence(trees_for(payload), "c03",
                             "pairs, negations and seeded random trees (depth 2-3) over all_p/any_p of scalar atoms (and one level of nested "
                             "quantifiers), is_empty/is_not_empty/has_length, and the subset family over sets {},{1},{1,2},{2,3},{3},{1,2,3}; "
                             "optimize(p) compared structurally with the generated model; distinct = distinct reprs")


def big_trees():
    import math
    from predicate.standard_predicates import all_p, any_p, eq_p, gt_p, lt_p, ne_p
    from predicate import predicate as PP
    _mk, sets_ = gen.big_atom_makers()
    out = []
    for i, a in enumerate(sets_):
        for b in sets_[i + 1:]:
            for op in ("and", "or", "xor"):
                out += [gen.mk(op, a(), b()), gen.mk(op, b(), a())]
    nan = math.nan
    # (NaN constants are outside the property's premise - constants must be comparable: `eq_p(nan) | eq_p(1)` becomes `in_p(nan, 1)`, and `in`
    #  finds the same nan object by identity; recorded in DESIGN.md section 7, not searched here)
    out += [gen.mk("or", gen.mk("or", gen.mk("or", any_p(lt_p(0)), PP.is_empty_p), all_p(eq_p(1))), any_p(gt_p(5))),
            gen.mk("or", any_p(lt_p(0)), gen.mk("or", PP.is_empty_p, gen.mk("or", all_p(eq_p(1)), any_p(gt_p(5))))),
            gen.mk("and", gen.mk("and", gen.mk("and", all_p(gt_p(0)), PP.is_not_empty_p), any_p(eq_p(1))), all_p(lt_p(5)))]
    return out, [[1.5], [1, 1], [1], {1}, [], [0, 6], [-1], [1, 2, 3], [7]] + gen.BIG_SETS


def search(payload):
    thorough = payload["tier"] == "thorough" or payload.get("deep")
    trees, family = trees_for(payload, for_search=True, flags=True)
    res = oc.search(trees, collections(thorough), "C03", payload, family=family)
    bt, bp = big_trees()
    big = oc.search(bt, bp, "C03", payload)
    res["evaluations"] += big["evaluations"]
    res["failures"] = (res["failures"] + big["failures"])[:10]
    res["known_hits"] += [h for h in big["known_hits"] if not h.get("witness")]
    # HISTORY (history.py): the family's small trees again and again; ONE optimized predicate asked about a sequence of collections whose
    # elements are == but of different types (1, 1.0, True); a caller who mutates the set it built a predicate from and optimizes again;
    # collections with elements the element predicate cannot be applied to (on the reviewed tree both sides raise there)
    from predicate.standard_predicates import all_p, any_p, ge_p, is_bool_p, is_float_p, is_int_p, lt_p
    from predicate.set_predicates import is_subset_p
    listed = oc.load_listed("C03") or {}
    fam = [t for t, f in zip(trees, family) if f]
    tpl = [t for t in fam[:: max(1, len(fam) // 150)] if oc.skey(t) not in listed]
    pts = collections(False) + [[3, "a"], (5, None), [1, "a"], ["a", 3], [None]]

    def seq_call(mk, xss):
        def th():
            p = mk()
            q = oc.optimize(mk())
            for xs in xss:                          # the SAME two objects, one collection after the other
                a, b = call(p, xs), call(q, xs)
                if a[0] == "ok" and a != b:
                    return {"p": repr(p), "p_structure": oc.skey(p), "optimized": repr(q), "x": repr(xs), "original_answer": repr(a[1]), "optimized_answer": repr(b),
                            "note": f"one optimized predicate object asked about the collections {xss!r} in this order"}
            return None
        return th
    mixed = [[1.0], [True, 1], [1], [0.5, 2.0], [2, 7.0], (False, True), (0.0,), (0,), [1, 1.0, True], [True], [1.0, 1]]
    extra = []
    for nm, e in (("is_int_p", is_int_p), ("is_float_p", is_float_p), ("is_bool_p", is_bool_p)):
        for lb, mk in ((f"~any_p(~{nm})", lambda e=e: ~any_p(~e)), (f"~all_p(~{nm})", lambda e=e: ~all_p(~e)), (f"all_p({nm}) & all_p(ge_p(0))", lambda e=e: all_p(e) & all_p(ge_p(0))),
                       (f"any_p({nm}) | any_p(lt_p(0))", lambda e=e: any_p(e) | any_p(lt_p(0))), (f"any_p(~{nm})", lambda e=e: any_p(~e))):
            extra.append((f"optimize({lb}) asked about [1.0], [True, 1], [1], [0.5, 2.0], ... in turn", seq_call(mk, mixed)))
            extra.append((f"optimize({lb}) asked about the same collections in the opposite order", seq_call(mk, mixed[::-1])))

    def mutate_then_reoptimize():
        allowed = {1, 2}
        p = is_subset_p(allowed) & is_subset_p({1, 2, 3, 4})
        q1 = oc.optimize(p)
        allowed.add(3)                               # the caller's own set, which the predicate refers to
        q2 = oc.optimize(p)
        for xs in ({3}, {1, 3}, {4}, set(), {1}):
            if call(p, xs) != call(q2, xs):
                return {"p": "is_subset_p(allowed) & is_subset_p({1, 2, 3, 4}) with allowed = {1, 2}", "x": repr(xs), "original_answer": repr(call(p, xs)), "optimized_answer": repr(call(q2, xs)),
                        "optimized": repr(q2), "note": "optimize(p); allowed.add(3); optimize(p) again: the second result is judged against p as it is now"}
        return None
    extra.append(("optimize(p); allowed.add(3); optimize(p)  [p = is_subset_p(allowed) & is_subset_p({1, 2, 3, 4})]", mutate_then_reoptimize))
    n, hfails = oc.history_search("C03", payload, tpl, pts, assignments=False, extra_calls=extra, vetted=True)
    res["evaluations"] += n
    res["history_calls"] = n
    res["failures"] = (res["failures"] + hfails)[:10]
    return res


def replay(payload):
    return oc.replay(payload)


if __name__ == "__main__":
    main({"correspondence": correspondence, "search": search, "replay": replay})
