"""C03 — optimize() preserves quantified, emptiness and set-inclusion predicates."""
import itertools

from common import gen, main, rng_of
import optcommon as oc


def makers():
    elem = gen.scalar_atom_makers(consts=[1, 2, 3], with_fn=False)
    elem = elem[:18] + elem[-16:]
    coll = gen.coll_atom_makers(elem)
    nested = [lambda m=m: gen.all_p(m()) for m in coll[:6]] + [lambda m=m: gen.any_p(m()) for m in coll[:6]]
    return coll + nested, gen.set_atom_makers()


ELEMS = [0, 1, 2, 3, None, "a", 2.5, True]


def collections(thorough):
    out = []
    n = 3 if thorough else 2
    for k in range(n + 1):
        for items in itertools.product(ELEMS[:6] if k >= 3 else ELEMS, repeat=k):
            out.append(list(items))
            if k <= 2:
                out.append(tuple(items))
            try:
                out.append(set(items))
            except TypeError:
                pass
    out += [[[1], []], [[], [2, 3]], ([1, 2], [3]), 5, None, "ab"]
    return out


def full_family():
    """the deterministic input family of C03: every atom, its negation, and every (atom op atom) pair of both grids"""
    coll, sets = makers()
    trees = []
    for mk in (coll, sets):
        trees += [gen.mk(op, mk[a](), mk[b]()) for a in range(len(mk)) for b in range(len(mk)) for op in ("and", "or", "xor")]
        for m in mk:
            trees += [m(), gen.mk("not", m())]
    return trees, collections(True), False


def trees_for(payload, for_search=False, flags=False):
    rng = rng_of(payload)
    thorough = payload["tier"] == "thorough" or (for_search and payload.get("deep"))
    coll, sets = makers()
    trees, family = [], []
    for mk in (coll, sets):
        pairs = [(a, b, op) for a in range(len(mk)) for b in range(len(mk)) for op in ("and", "or", "xor")]
        for a, b, op in (pairs if thorough and len(pairs) < 20000 else rng.sample(pairs, min(len(pairs), 6000 if thorough else 1200))):
            trees.append(gen.mk(op, mk[a](), mk[b]()))
        for m in mk:
            trees.append(m())
            trees.append(gen.mk("not", m()))
        family += [True] * (len(trees) - len(family))
        for _ in range(4000 if thorough else 600):
            trees.append(gen.build(gen.random_shape(rng, len(mk), rng.choice([2, 3])), mk))
        family += [False] * (len(trees) - len(family))
    if flags:
        return trees, family
    return trees


def correspondence(payload):
    return oc.correspondence(trees_for(payload), "c03",
                             "pairs, negations and seeded random trees (depth 2-3) over all_p/any_p of scalar atoms (and one level of nested "
                             "quantifiers), is_empty/is_not_empty/has_length, and the subset family over sets {},{1},{1,2},{2,3},{3},{1,2,3}; "
                             "optimize(p) compared structurally with the generated model; distinct = distinct reprs")


def search(payload):
    thorough = payload["tier"] == "thorough" or payload.get("deep")
    trees, family = trees_for(payload, for_search=True, flags=True)
    return oc.search(trees, collections(thorough), "C03", payload, family=family)


def replay(payload):
    return oc.replay(payload)


if __name__ == "__main__":
    main({"correspondence": correspondence, "search": search, "replay": replay})
