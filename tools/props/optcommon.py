"""Shared correspondence / search for the optimizer properties C01, C02, C03 (and C20's -o mode)."""
from __future__ import annotations

import itertools
import json
import os
import re

from common import call, chunks, enc, gen, rng_of, vlib

from predicate import predicate as PP
from predicate.all_predicate import AllPredicate
from predicate.any_predicate import AnyPredicate
from predicate.named_predicate import NamedPredicate
from predicate import optimize                # the PUBLIC entry point (what users import)
from predicate.set_of_predicate import SetOfPredicate
from predicate.comp_predicate import CompPredicate

FUEL = 2000


def subterms(p):
    yield p
    for a in ("left", "right", "predicate"):
        c = getattr(p, a, None)
        if isinstance(c, PP.Predicate):
            yield from subterms(c)


def names_of(p):
    return sorted({q.name for q in subterms(p) if isinstance(q, NamedPredicate)})


def set_names(p, assignment: dict):
    for q in subterms(p):
        if isinstance(q, NamedPredicate):
            q.v = assignment.get(q.name, False)      # (a result that mentions a variable the input does not have: judged as False)


def atoms_defined(p, x) -> bool:
    """every atom of p is defined on x (for quantifiers: x iterable and the inner atoms on every element)"""
    if isinstance(p, (PP.AndPredicate, PP.OrPredicate, PP.XorPredicate)):
        return atoms_defined(p.left, x) and atoms_defined(p.right, x)
    if isinstance(p, PP.NotPredicate):
        return atoms_defined(p.predicate, x)
    if isinstance(p, (AllPredicate, AnyPredicate, SetOfPredicate)):
        try:
            items = list(x)
        except TypeError:
            return False
        if isinstance(x, (str, bytes)):
            items = list(x)
        return all(atoms_defined(p.predicate, i) for i in items)
    if isinstance(p, CompPredicate):
        try:
            y = p.fn(x)
        except Exception:  # noqa: BLE001
            return False
        return atoms_defined(p.predicate, y)
    return call(p, x)[0] == "ok"


LISTED_DIR = os.path.join(os.path.dirname(os.path.abspath(__file__)), "listed")


def skey(p):
    """canonical, parenthesised text of a predicate built from the generators' atoms (None when it holds an object
    without a stable name, e.g. an anonymous lambda): the identity under which failing inputs are LISTED"""
    import dataclasses
    if isinstance(p, NamedPredicate):
        return f"(var {p.name})"
    if isinstance(p, PP.FnPredicate):
        n = getattr(p.predicate_fn, "__name__", "")
        return f"(fn {n})" if n.startswith("fnlib") else None
    parts = [type(p).__name__]
    if not dataclasses.is_dataclass(p):
        return None
    for f in dataclasses.fields(p):
        v = getattr(p, f.name)
        if isinstance(v, PP.Predicate):
            k = skey(v)
            if k is None:
                return None
            parts.append(k)
        elif isinstance(v, (set, frozenset)):
            parts.append("{" + ",".join(sorted(repr(e) for e in v)) + "}")
        elif isinstance(v, tuple) and all(isinstance(e, type) for e in v):
            parts.append("<" + ",".join(e.__name__ for e in v) + ">")
        elif callable(v) and not isinstance(v, type):
            n = getattr(v, "__name__", "")
            if not n.startswith(("fnlib", "complib")):
                return None
            parts.append(n)
        else:
            parts.append(repr(v))
    return "(" + " ".join(parts) + ")"


def load_listed(pid):
    """{key: [finding ids]}: the members of the property's deterministic input family that fail on the reviewed tree, each
    attributed to listed findings (committed file, written only by tools/mklisted.py, never at check time)"""
    path = os.path.join(LISTED_DIR, pid + ".json")
    if not os.path.exists(path):
        return None
    return json.load(open(path))["failing"]


def model_run(trees, results, name):
    """run the generated optimizer on `trees`; returns per tree [status, *trace] where status 0 = the model's
    output is the implementation's `results[i]`, 1 = different, 2 = out of fuel, 3 = crash"""
    cx = enc.Ctx()
    out = []
    items = [f"({cx.pred(p)}, {cx.pred(q)})" for p, q in zip(trees, results)]
    for part in chunks(items, 400):
        text = (enc.CASE_HEADER + enc.world_text()
                + f"\nDefinition run (c : pred*pred) : list nat := match optimize W0 {FUEL}%nat (fst c) with\n"
                  " | Ok q tr => (if same q (snd c) then 0%nat else 1%nat) :: tr | OutOfFuel => [2%nat] | Crash => [3%nat] end.\n"
                + "Definition cases := [\n" + ";\n".join(part) + "].\nEval vm_compute in map run cases.\n")
        o = vlib.coq_eval(name, text)
        m = re.search(r"=\s*\[([\s\S]*)\]\s*:\s*list \(list nat\)", o)
        if not m:
            raise vlib.Broken("correspondence", "could not parse model output", o[-800:])
        rows = re.findall(r"\[([^\[\]]*)\]", m.group(1))
        if len(rows) != len(part):
            raise vlib.Broken("correspondence", f"expected {len(part)} rows, got {len(rows)}")
        for r in rows:
            out.append([int(t.replace("%nat", "")) for t in re.split(r"[;\s]+", r.strip()) if t])
    return out


def encodable(p) -> bool:
    try:
        enc.Ctx().pred(p)
        return True
    except enc.Unencodable:
        return False


def correspondence(trees, label, rule):
    kept, results, skipped = [], [], 0
    for p in trees:
        try:
            q = optimize(p)
        except Exception:  # noqa: BLE001  (incomparable constants etc.: outside the property's premise)
            skipped += 1
            continue
        if encodable(p) and encodable(q):
            kept.append(p)
            results.append(q)
        else:
            skipped += 1
    rows = model_run(kept, results, label)
    mism = []
    sites = {}
    for p, q, r in zip(kept, results, rows):
        if r[0] != 0:
            mism.append({"p": repr(p), "impl_optimize": repr(q), "model_status": r[0]})
        for s in r[1:]:
            sites[s] = sites.get(s, 0) + 1
    distinct = len({repr(p) for p in kept})
    return {"evaluations": len(kept), "distinct_nontrivial": distinct, "rule": rule,
            "samples": [{"p": repr(kept[i]), "optimize": repr(results[i])} for i in range(0, len(kept), max(1, len(kept) // 5))][:5],
            "skipped": skipped, "known_site_hits": {str(k): v for k, v in sorted(sites.items())}, "mismatches": mism[:20]}


def first_difference(p, points, assignments):
    """(q, x, original, optimized) for the first point at which optimize(p) answers differently from p, else None"""
    try:
        q = optimize(p)
    except Exception:  # noqa: BLE001
        return None
    if assignments:
        ns = names_of(p)
        pts = [dict(zip(ns, bits)) for bits in itertools.product([False, True], repeat=len(ns))]
    else:
        pts = points
    for x in pts:
        if assignments:
            set_names(p, x)
            set_names(q, x)
            kp, rp = call(p, False)
            kq, rq = call(q, False)
        else:
            if not atoms_defined(p, x):
                continue
            kp, rp = call(p, x)
            if kp != "ok":
                continue
            kq, rq = call(q, x)
        if kq != "ok" or bool(rq) != bool(rp):
            return q, x, rp, (rq if kq == "ok" else f"raises {rq}")
    return None


def shrink(p, points, assignments, budget=200):
    """a smaller tree that still fails: descend into failing sub-terms, replace operands by constants, drop negations"""
    cur, n = p, 0
    progress = True
    while progress and n < budget:
        progress = False
        cands = []
        for a in ("left", "right", "predicate"):
            c = getattr(cur, a, None)
            if isinstance(c, PP.Predicate):
                cands.append(c)
        if isinstance(cur, (PP.AndPredicate, PP.OrPredicate, PP.XorPredicate)):
            for const in (PP.always_true_p, PP.always_false_p):
                cands += [type(cur)(left=cur.left, right=const), type(cur)(left=const, right=cur.right)]
            for a, b in (("left", "right"), ("right", "left")):
                for sub in [getattr(getattr(cur, a), s_, None) for s_ in ("left", "right", "predicate")]:
                    if isinstance(sub, PP.Predicate):
                        cands.append(type(cur)(**{a: sub, b: getattr(cur, b)}))
        for c in cands:
            n += 1
            if first_difference(c, points, assignments) is not None:
                cur, progress = c, True
                break
    return cur


def search(trees, points, pid, payload, assignments=False, family=None):
    """implementation-side test of the property's statement.  A failing input that belongs to the property's deterministic
    FAMILY (family[i] true) is a known finding only if its key is LISTED in tools/props/listed/<pid>.json; any other
    family member that fails is a new violation even when it fails through a listed rule site (a new way into a listed
    defect is a different failing input).  Failures outside the family (seeded random trees) are attributed through the
    model's taint trace."""
    fails = []
    listed = load_listed(pid) if family is not None else None
    listed_hits, unlisted = [], []
    n = 0
    for i, p in enumerate(trees):
        try:
            q = optimize(p)
        except Exception as e:  # noqa: BLE001
            continue
        if assignments:
            ns = names_of(p)
            pts = [dict(zip(ns, bits)) for bits in itertools.product([False, True], repeat=len(ns))]
        else:
            pts = points
        for x in pts:
            if assignments:
                set_names(p, x)
                set_names(q, x)
                kp, rp = call(p, False)
                kq, rq = call(q, False)
            else:
                if not atoms_defined(p, x):
                    continue
                kp, rp = call(p, x)
                if kp != "ok":
                    continue
                kq, rq = call(q, x)
            n += 1
            if kq != "ok" or bool(rq) != bool(rp):
                f = {"p": p, "q": q, "x": x, "orig": rp, "opt": (rq if kq == "ok" else f"raises {rq}")}
                key = skey(p) if (listed is not None and family[i]) else None
                if key is not None and key in listed and set(listed[key]) <= {k["id"] for k in vlib.load_known().get("findings", []) if pid in k.get("properties", [])}:
                    listed_hits.append((f, listed[key]))
                elif key is not None:
                    f["unlisted_family_member"] = key
                    unlisted.append(f)
                    fails.append(f)
                else:
                    fails.append(f)
                break
        if len(fails) >= 300:
            break
    new, known_hits = [], []
    known_ids = {k["id"] for k in vlib.load_known().get("findings", []) if pid in k.get("properties", [])}
    for f in fails[:12]:            # shrink the first few failing trees from outside the family (the replay shows a small input)
        if "unlisted_family_member" in f:
            continue
        small = shrink(f["p"], points, assignments)
        d = first_difference(small, points, assignments) if small is not f["p"] else None
        if d is not None:
            f["shrunk_from"] = repr(f["p"])[:300]
            f["p"], (f["q"], f["x"], f["orig"], f["opt"]) = small, d
    if fails and payload.get("model_ok", True):
        try:
            rows = model_run([f["p"] for f in fails if encodable(f["p"]) and encodable(f["q"])],
                             [f["q"] for f in fails if encodable(f["p"]) and encodable(f["q"])], pid.lower() + "s")
        except vlib.Broken:
            rows = None
        enc_fails = [f for f in fails if encodable(f["p"]) and encodable(f["q"])]
        for i, f in enumerate(enc_fails):
            tr = rows[i][1:] if rows else []
            rec = {"p": repr(f["p"]), "p_structure": skey(f["p"]), "optimized": repr(f["q"]), "x": repr(f["x"]), "original_answer": repr(f["orig"]),
                   "optimized_answer": repr(f["opt"]), "model_trace": tr}
            if "shrunk_from" in f:
                rec["shrunk_from"] = f["shrunk_from"]
            if "unlisted_family_member" in f:
                rec["note"] = ("this member of the deterministic input family fails but is not among the failing inputs listed in "
                               f"tools/props/listed/{pid}.json" + (f" (it fails through listed rule site(s) {sorted(set(tr))}: a new way into a "
                               "listed defect)" if tr and set(tr) <= known_ids else ""))
                rec["family_key"] = f["unlisted_family_member"]
                new.append(rec)
            elif rows and tr and set(tr) <= known_ids:
                known_hits += [{"id": s, "p": rec["p"]} for s in set(tr)]
            else:
                new.append(rec)
        for f in fails:
            if f not in enc_fails:
                new.append({"p": repr(f["p"]), "p_structure": skey(f["p"]), "optimized": repr(f["q"]), "x": repr(f["x"]), "original_answer": repr(f["orig"]),
                            "optimized_answer": repr(f["opt"]), "note": "not encodable in the model (no trace to attribute it with)"})
    else:
        # the model is unavailable, so failures cannot be attributed through its trace: a failing tree that contains the
        # operand shape of a listed finding is not reported as a new failing input
        # ... unless the REVIEWED code (tools/props/baseline, the commit the known findings were established on) optimizes this very
        # input correctly: then it cannot be one of the listed findings, whatever its shape
        base = baseline_verdicts([(f["p"], f["x"], assignments) for f in fails])
        for f, b in zip(fails, base):
            if "unlisted_family_member" in f or b is False or not could_be_known(f["p"], pid):
                new.append({"p": repr(f["p"]), "p_structure": skey(f["p"]), "optimized": repr(f["q"]), "x": repr(f["x"]), "original_answer": repr(f["orig"]),
                            "optimized_answer": repr(f["opt"]),
                            "note": ("model unavailable; the reviewed code (tools/props/baseline) optimizes this input correctly, so it is not a listed finding"
                                     if b is False else "model unavailable: attributed by shape only")})
    for f, ids in listed_hits:
        known_hits += [{"id": s, "p": repr(f["p"]), "listed": True} for s in ids if s in known_ids]
    for k in vlib.load_known().get("findings", []):
        if pid in k.get("properties", []) and witness_fails(k):
            known_hits.append({"id": k["id"], "p": k["witness"]["expr"], "witness": True})
    return {"evaluations": n, "failures": new[:10], "known_hits": known_hits[:60], "listed_family_failures": len(listed_hits),
            "family_members": (sum(1 for x in family if x) if family is not None else 0),
            "samples": [{"p": repr(trees[0]), "x": repr(points[0] if points else None)}] if trees else []}


def eval_witness(expr: str):
    import predicate as P
    import predicate.standard_predicates as SP
    import predicate.set_predicates as SETP
    ns = {}
    for m in (P, SP, SETP):
        ns.update({k: getattr(m, k) for k in dir(m) if not k.startswith("_")})
    ns["p"], ns["q"] = NamedPredicate(name="p"), NamedPredicate(name="q")
    return eval(expr, ns)  # noqa: S307 (our own committed witness expressions)


def witness_fails(k) -> bool:
    """does the listed witness of a known finding still fail on the implementation?"""
    w = k["witness"]
    try:
        p = eval_witness(w["expr"])
        q = optimize(p)
        if "assignment" in w:
            set_names(p, w["assignment"])
            set_names(q, w["assignment"])
            return call(p, False) != call(q, False)
        x = eval(w["x"]) if isinstance(w["x"], str) else w["x"]  # noqa: S307
        return call(p, x) != call(q, x)
    except Exception:  # noqa: BLE001
        return False


def replay(payload):
    inp = payload["replay"].get("input", {})
    return {"fails": True, "input": inp, "note": "re-evaluate: PYTHONPATH=/repo /venv/bin/python -c 'from predicate import *; p = <p>; print(p(x), optimize(p)(x))'"}


def baseline_verdicts(cases):
    """for (p, x, assignments): does the REVIEWED library code (snapshot in tools/props/baseline) also change p's answer at x when it
    optimizes?  True / False / None (cannot tell: not picklable, snapshot missing, error).  Only used when the model is unavailable."""
    import pickle
    import subprocess
    import sys
    here = os.path.dirname(os.path.abspath(__file__))
    out = [None] * len(cases)
    idx, blob = [], []
    for i, c in enumerate(cases):
        try:
            pickle.dumps(c)
            idx.append(i)
            blob.append(c)
        except Exception:  # noqa: BLE001
            pass
    if not blob or not os.path.isdir(os.path.join(here, "baseline", "predicate")):
        return out
    try:
        r = subprocess.run([sys.executable, os.path.join(here, "baseline_run.py")], input=pickle.dumps(blob), stdout=subprocess.PIPE, stderr=subprocess.DEVNULL,
                           env=dict(os.environ, PYTHONPATH=os.path.join(here, "baseline"), PYTHONHASHSEED="0"), timeout=600)
        got = json.loads(r.stdout.decode().strip().splitlines()[-1])
        for i, g_ in zip(idx, got):
            out[i] = g_
    except Exception:  # noqa: BLE001
        pass
    return out


def could_be_known(p, pid) -> bool:
    from predicate.is_instance_predicate import IsInstancePredicate
    from predicate.set_predicates import IsSubsetPredicate
    ids = {k["id"] for k in vlib.load_known().get("findings", []) if pid in k.get("properties", [])}
    for t in subterms(p):
        if ids & {1, 2, 3, 4, 5, 6} and isinstance(t, PP.XorPredicate):
            return True
        if isinstance(t, PP.AndPredicate):
            kinds = {type(s) for s in subterms(t)}
            if 7 in ids and PP.FnPredicate in kinds and PP.EqPredicate in kinds:
                return True
            if 8 in ids and IsInstancePredicate in kinds:
                return True
            if 9 in ids and IsSubsetPredicate in kinds:
                return True
        if 10 in ids and isinstance(t, AnyPredicate):
            return True
        if 11 in ids and isinstance(t, PP.OrPredicate) and PP.EqPredicate in {type(s) for s in subterms(t)}:
            return True
    return False


# ---------------------------------------------------------------- histories (see history.py)
def history_search(pid, payload, templates, points, assignments=False, extra_calls=(), extra_poison=(), vetted=False):
    """the same small optimize() calls as ONE history in one process: every call works on a fresh deep copy of its template
    (addresses get reused), can_optimize() of another formula is asked in between, ill-typed and too-deep trees are optimized
    (and their exceptions caught) half-way, everything is repeated in several orders.  A call is judged by the property itself
    (same answer as the original at every point); calls that already fail when fresh are left to the other families."""
    import copy
    import history
    from predicate import can_optimize
    from predicate.standard_predicates import ge_p, le_p
    from predicate.named_predicate import NamedPredicate as _N
    rng = rng_of(payload)

    def thunk(tpl, other):
        def th():
            for _attempt in range(3):                        # (whether a freed address is taken by the next object is up to the allocator: a few tries)
                can_optimize(copy.deepcopy(other))           # a temporary that is dropped at once: its address is free again
                t = copy.deepcopy(tpl)
                q = optimize(t)
                ref = copy.deepcopy(tpl)                     # the original, untouched by whatever optimize did to its argument
                d = first_difference_pair(ref, q, points, assignments)
                if d is not None:
                    x, a, b = d
                    return {"p": repr(tpl), "p_structure": skey(tpl), "optimized": repr(q), "x": repr(x), "original_answer": repr(a), "optimized_answer": repr(b)}
            return None
        return th
    calls = []
    for i, tpl in enumerate(templates):
        calls.append((f"optimize({tpl!r})  [after can_optimize({templates[(i * 7 + 3) % len(templates)]!r}) on a temporary]", thunk(tpl, templates[(i * 7 + 3) % len(templates)])))
    calls += list(extra_calls)

    vnames = sorted({nm for tpl in templates for nm in names_of(tpl)})[:2] if assignments else []
    na, nb = (vnames + ["a", "b"])[:2]                   # the variables of the templates: what is left behind by a failed call must be able to meet them

    def deep(n):
        t = _N(name=na)
        for _ in range(n):
            t = PP.AndPredicate(_N(name=nb), t)
        return t
    poison = [("optimize(ge_p(1) & le_p('x'))  # TypeError: constants that cannot be compared", lambda: optimize(ge_p(1) & le_p("x")))] * 60
    poison += [(f"optimize(~{na} & (ge_p(1) & le_p('x')))", lambda: optimize(PP.NotPredicate(_N(name=na)) & (ge_p(1) & le_p("x")))),
               (f"optimize(~{nb} & (ge_p(1) & le_p('x')))", lambda: optimize(PP.NotPredicate(_N(name=nb)) & (ge_p(1) & le_p("x")))),
               (f"optimize({na} & <and-chain nested 3000 deep>)  # RecursionError", lambda: optimize(PP.AndPredicate(_N(name=na), deep(3000)))),
               ("optimize(<and-chain nested 5000 deep>)  # RecursionError", lambda: optimize(deep(5000)))]
    poison += list(extra_poison)
    n, fails = history.run(calls, poison=poison, passes=4, seed=int(payload.get("seed", 0)), recursion_limit=1000, vetted=vetted)
    return n, fails


def first_difference_pair(p, q, points, assignments):
    """first point at which p (defined there) and q answer differently: (x, p(x), q(x)) or None"""
    if assignments:
        ns = names_of(p)
        for bits in itertools.product([False, True], repeat=len(ns)):
            env = dict(zip(ns, bits))
            set_names(p, env)
            for t in subterms(q):
                if isinstance(t, NamedPredicate):
                    t.v = env.get(t.name, False)
            kp, rp = call(p, False)
            kq, rq = call(q, False)
            if kp == "ok" and (kq != "ok" or bool(rq) != bool(rp)):
                return env, rp, (rq if kq == "ok" else f"raises {rq}")
        return None
    for x in points:
        if not atoms_defined(p, x):
            continue
        kp, rp = call(p, x)
        if kp != "ok":
            continue
        kq, rq = call(q, x)
        if kq != "ok" or bool(rq) != bool(rp):
            return x, rp, (rq if kq == "ok" else f"raises {rq}")
    return None
