"""History harness shared by the plugins' searches.

A single well-formed call in a fresh process is what the other search families exercise.  This module runs the SAME small
calls as a history in ONE process: every call builds its inputs afresh and drops them (so object addresses are reused),
the calls are repeated in several orders, calls that are expected to raise ("poison": ill-typed constants, trees beyond the
recursion limit, kinds without a generator ...) are made in between and their exceptions caught as a user would, and an
optional hook lets the caller of the library do what callers do (mutate a value it was handed).

Each call is a thunk returning None (the property holds on this call) or a record describing the failure (judged by the
property's own oracle, computed on fresh objects).  Unless the caller passes vetted=True (every call is known to pass in a fresh
process on the reviewed tree: lists written by hand or filtered by the listed known findings), a thunk that already fails on its
first execution is NOT a finding of this harness (single-shot failures belong to the other families, where the listed known
findings are attributed): it is dropped.  What is reported is a call that passed when fresh and fails later: the record is returned together with the
calls made before it."""
from __future__ import annotations

import gc
import random
import sys


def run(calls, poison=(), passes=3, seed=0, limit=5, between=None, recursion_limit=None, vetted=False):
    """calls: list of (label, thunk); poison: list of (label, thunk) expected to raise (anything they raise is swallowed).
    Returns (number of executions, failures)."""
    rng = random.Random(seed)
    n, fails, log = 0, [], []
    fresh_bad = set()
    old_limit = sys.getrecursionlimit()
    for label, th in calls:                       # pass 0: every call once, in the given order
        n += 1
        try:
            r = th()
        except Exception as e:  # noqa: BLE001
            r = {"error": f"{type(e).__name__}: {e}"[:200]}
        if r is not None:
            if vetted:            # the caller vouches that every call passes in a fresh process on the reviewed tree: a failure here is one
                rec = dict(r)
                rec["call"] = label
                rec["history"] = "fails already at its first execution in this process, after the calls listed in `calls_before`"
                rec["calls_before"] = log[-6:]
                rec["repetition"] = 0
                fails.append(rec)
                if len(fails) >= limit:
                    return n, fails
            fresh_bad.add(label)
        log.append(label)
    live = [(lb, th) for lb, th in calls if lb not in fresh_bad]
    for k in range(1, passes + 1):
        if k == 2 or (k == 1 and passes == 1):    # the poison calls come after one clean repetition
            for label, th in poison:
                try:
                    if recursion_limit:
                        sys.setrecursionlimit(recursion_limit)
                    th()
                except BaseException as e:  # noqa: BLE001  (RecursionError, TypeError, ValueError, library-defined ...)
                    if isinstance(e, (KeyboardInterrupt, SystemExit)):
                        raise
                finally:
                    sys.setrecursionlimit(old_limit)
                log.append("[raises] " + label)
        if between is not None:
            between(k)
        gc.collect()
        order = list(live)
        rng.shuffle(order)
        if k % 2 == 0:
            order.reverse()
        for label, th in order:
            n += 1
            try:
                r = th()
            except Exception as e:  # noqa: BLE001
                r = {"error": f"{type(e).__name__}: {e}"[:200]}
            if r is not None:
                rec = dict(r)
                rec["call"] = label
                rec["history"] = ("this call satisfied the property when it was made first in this process (call "
                                  f"{log.index(label) + 1} of {len(log)}); it fails after the calls listed in `calls_before`")
                rec["calls_before"] = log[-6:]
                rec["repetition"] = k
                fails.append(rec)
                if len(fails) >= limit:
                    return n, fails
            log.append(label)
    return n, fails
