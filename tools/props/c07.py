"""C07 — connectives and quantifiers evaluate truth-functionally, left to right.
correspondence: trees over RECORDING atoms (every call of a user function is logged with its argument) built with the
                library's own operators (&, |, ^, ~) and factories (all_p, any_p, comp_p, tee_p); the implementation's
                result (True/False/raise) and call log are compared with the model's `run` (value, trace).
search:         the property's clauses checked on the implementation with a plain-Python oracle."""
import itertools

from common import call, chunks, enc, gen, main, rng_of, vlib

from predicate import predicate as PP
from predicate.standard_predicates import all_p, any_p, comp_p, fn_p, ge_p, gt_p, le_p, lt_p, is_int_p, is_list_p, is_set_of_p, is_str_p, tee_p

LOG = []


def rec_fn(i):
    f = enc.FN_LIB[i][0]

    def g(x):
        LOG.append(("fn", i, x))
        return f(x)
    g.__name__ = f"rec{i}"
    return g


def rec_comp(j):
    f = enc.COMP_LIB[j][0]

    def g(x):
        LOG.append(("comp", j, x))
        return f(x)
    return g


class Cx(enc.Ctx):
    pass


def makers(cx):
    ms = []
    for i in range(len(enc.FN_LIB)):
        def mk(i=i):
            g = rec_fn(i)
            cx.fn_ids[id(g)] = i
            cx.keep.append(g)
            return fn_p(g)
        ms.append(mk)

    def mk_tee():
        g = rec_fn(1)
        cx.fn_ids[id(g)] = 1
        cx.keep.append(g)
        return tee_p(g)
    ms.append(mk_tee)
    ms += [lambda: is_int_p, lambda: ge_p(1), lambda: PP.always_true_p, lambda: PP.always_false_p, lambda: is_list_p]
    return ms


def build(rng, ms, cx, depth):
    if depth == 0 or rng.random() < 0.3:
        return rng.choice(ms)()
    r = rng.random()
    if r < 0.15:
        return ~build(rng, ms, cx, depth - 1)
    if r < 0.3:
        return rng.choice([all_p, any_p, is_set_of_p])(build(rng, ms, cx, depth - 1))
    if r < 0.4:
        j = rng.randrange(len(enc.COMP_LIB))
        g = rec_comp(j)
        cx.comp_ids[id(g)] = j
        cx.keep.append(g)
        return comp_p(g, build(rng, ms, cx, depth - 1))
    a, b = build(rng, ms, cx, depth - 1), build(rng, ms, cx, depth - 1)
    return rng.choice([lambda: a & b, lambda: a | b, lambda: a ^ b])()


INPUTS = [None, True, 0, 1, 3, -2, 2.5, 1j, [], [1, 3], [3, None, -1], [None], [[1], [-1, 3]], (4, 0), {5}, [True, 0]]


def cases(payload):
    rng = rng_of(payload)
    cx = Cx()
    cx.keep = []
    ms = makers(cx)
    out = []
    n = 1500 if payload["tier"] == "thorough" or payload.get("deep") else 350
    for _ in range(n):
        p = build(rng, ms, cx, rng.choice([1, 2, 3]))
        x = rng.choice(INPUTS)
        out.append((p, x))
    return cx, out


def run_impl(p, x):
    del LOG[:]
    k, r = call(p, x)
    code = 2 if k == "raise" else (1 if r else 0)
    return code, list(LOG)


def correspondence(payload):
    cx, cs = cases(payload)
    items, expected, kept = [], [], []
    for p, x in cs:
        code, log = run_impl(p, x)
        try:
            tr = "[" + "; ".join((f"CallFn {i}%nat {cx.val(a)}" if kind == "fn" else f"CallComp {i}%nat {cx.val(a)}") for kind, i, a in log) + "]"
            items.append(f"({cx.pred(p)}, {cx.val(x)}, {code}%nat, {tr})")
        except enc.Unencodable:
            continue
        kept.append((p, x, code, log))
    defs = """
From PP Require Import Lemmas.Trace.
Open Scope Q_scope.
Definition call_eqb (a b : call) : bool := match a, b with
  | CallFn f x, CallFn g y => Nat.eqb f g && val_eqb x y
  | CallComp f x, CallComp g y => Nat.eqb f g && val_eqb x y
  | _, _ => false end.
"""
    run_def = ("Definition run1 (c : pred * val * nat * list call) : nat := let '(p, x, code, tr) := c in\n"
               "  let '(v, t) := run W0 p x in\n"
               "  if negb (Nat.eqb (opt_bool_code v) code) then 1%nat else if list_eqb call_eqb t tr then 0%nat else 2%nat.\n"
               "Definition run := run1.")
    codes = []
    for part in chunks(items, 300):
        text = (enc.CASE_HEADER + enc.world_text() + defs + run_def
                + "\nDefinition cases := [\n" + ";\n".join(part) + "].\nEval vm_compute in map run cases.\n")
        codes += vlib.parse_nat_list(vlib.coq_eval("c07", text))
    mism = [{"p": repr(kept[i][0]), "x": repr(kept[i][1]), "impl_result": kept[i][2], "impl_calls": repr(kept[i][3]),
             "disagreement": {1: "value", 2: "call sequence"}[c]} for i, c in enumerate(codes) if c != 0]
    nontriv = len({(repr(p), repr(x)) for p, x, _c, log in kept if len(log) >= 2})
    return {"evaluations": len(items), "distinct_nontrivial": nontriv,
            "rule": "seeded random trees of depth 1-3 built with &,|,^,~,all_p,any_p,is_set_of_p,comp_p,tee_p over recording function atoms "
                    "(behaviours: total, raising on non-numbers, constant) and plain guards, on scalar and (nested) collection inputs; the "
                    "implementation's result and recorded call sequence vs the model's run; non-trivial = at least two recorded calls",
            "outcomes": {"false": sum(1 for k in kept if k[2] == 0), "true": sum(1 for k in kept if k[2] == 1), "raises": sum(1 for k in kept if k[2] == 2)},
            "samples": [{"p": repr(kept[i][0]), "x": repr(kept[i][1]), "result": kept[i][2], "calls": len(kept[i][3])} for i in range(0, len(kept), max(1, len(kept) // 4))][:4],
            "mismatches": mism[:10]}


def search(payload):
    fails, n = [], 0
    rng = rng_of(payload)
    log = []

    def atom(name, behaviour):
        def f(x):
            log.append((name, x))
            if behaviour == "raise":
                raise RuntimeError(name)
            if callable(behaviour):
                return behaviour(x)
            return behaviour
        return fn_p(f)
    for bl in (True, False, "raise"):
        for br in (True, False, "raise"):
            for x in (0, "s", None):
                n += 1
                for op, name in ((lambda a, b: a & b, "and"), (lambda a, b: a | b, "or"), (lambda a, b: a ^ b, "xor")):
                    del log[:]
                    p = op(atom("L", bl), atom("R", br))
                    k, r = call(p, x)
                    names = [c[0] for c in log]
                    # oracle: plain Python semantics
                    exp_names, exp = ["L"], None
                    if bl == "raise":
                        exp = "raise"
                    elif name == "and" and bl is False:
                        exp = False
                    elif name == "or" and bl is True:
                        exp = True
                    else:
                        exp_names.append("R")
                        exp = "raise" if br == "raise" else {"and": bl and br, "or": bl or br, "xor": bl != br}[name]
                    got = "raise" if k == "raise" else r
                    if names != exp_names or got != exp:
                        fails.append({"op": name, "left": bl, "right": br, "x": repr(x), "calls": names, "expected_calls": exp_names,
                                      "result": repr(got), "expected": repr(exp)})
    # not, quantifiers, comp, tee
    for items in ([], [1], [1, -1, 5], [-1, 1], [5, 6, 7], (2, -3)):
        for q, qname in ((all_p, "all"), (any_p, "any")):
            n += 1
            del log[:]
            p = q(atom("A", lambda v: v > 0))
            k, r = call(p, items)
            seen = [c[1] for c in log]
            if qname == "all":
                stop = next((i for i, v in enumerate(items) if not v > 0), None)
                exp = stop is None
            else:
                stop = next((i for i, v in enumerate(items) if v > 0), None)
                exp = stop is not None
            exp_seen = list(items) if stop is None else list(items[: stop + 1])
            if k != "ok" or r != exp or seen != exp_seen:
                fails.append({"quantifier": qname, "items": repr(items), "result": repr(r), "expected": exp, "evaluated": repr(seen), "expected_evaluated": repr(exp_seen)})
    # items that are == but not the same value / repeated items: every item up to the first counter-example (witness) is evaluated
    pool = [1, 1.0, True, 0, 0.0, False, -1, 2, 2.0]
    behaviours = (("type(v) is int", lambda v: type(v) is int), ("type(v) is float", lambda v: type(v) is float),
                  ("v > 0", lambda v: v > 0), ("type(v) is not bool", lambda v: type(v) is not bool))
    lists = [list(t) for k in (2, 3) for t in itertools.product(pool[:6], repeat=k)][:: (1 if payload.get("deep") else 3)]
    lists += [[rng.choice(pool) for _ in range(rng.randrange(2, 6))] for _ in range(300)]
    for items in lists:
        for bname, beh in behaviours:
            for q, qname in ((all_p, "all"), (any_p, "any")):
                n += 1
                del log[:]
                k, r = call(q(atom("A", beh)), items)
                seen = [c[1] for c in log]
                vals = [beh(v) for v in items]
                stop = next((i for i, b in enumerate(vals) if b == (qname == "any")), None)
                exp = (stop is None) if qname == "all" else (stop is not None)
                exp_seen = items if stop is None else items[: stop + 1]
                # the evaluated items must be a subsequence of the items up to the first counter-example / witness (a repeated
                # item need not be evaluated again; nothing after the stop may be evaluated)
                it = iter(exp_seen)
                same_seen = all(any(type(a) is type(b) and a == b for b in it) for a in seen)
                if k != "ok" or r != exp or not same_seen:
                    fails.append({"quantifier": qname, "element_predicate": bname, "items": repr(items), "result": repr(r), "expected": exp,
                                  "evaluated": repr(seen), "expected_evaluated": repr(exp_seen)})
                    break
        if len(fails) >= 5:
            break
    # LIBRARY atoms under the quantifiers (not only instrumented ones): for-all / exists over the elements, whatever the atom
    import math
    from predicate.standard_predicates import eq_p, ne_p, is_none_p, is_not_none_p, le_p, is_bool_p, is_float_p
    from predicate.set_predicates import in_p
    nan = math.nan
    lib_atoms = [("eq_p('ab')", eq_p("ab"), lambda v: v == "ab"), ("eq_p('a')", eq_p("a"), lambda v: v == "a"), ("eq_p(1)", eq_p(1), lambda v: v == 1),
                 ("eq_p(nan)", eq_p(nan), lambda v: v == nan), ("ne_p(1)", ne_p(1), lambda v: v != 1), ("is_none_p", is_none_p, lambda v: v is None),
                 ("eq_p(None)", eq_p(None), lambda v: v == None), ("in_p(1, 2)", in_p(1, 2), lambda v: v in {1, 2}),  # noqa: E711
                 ("is_bool_p", is_bool_p, lambda v: isinstance(v, bool)), ("eq_p((1, 2))", eq_p((1, 2)), lambda v: v == (1, 2))]
    colls = ["abc", "ab", "", "a", [1.0, nan], [nan], [1, 2], [2, 3], [None], [None, 1], (), [True], [1.0], ["ab", "c"], [(1, 2)], (1, 2), {1, 5}, {"a": 1}, [[1, 2]], b"ab"]
    for aname, atom_, ref_ in lib_atoms:
        for xs in colls:
            for q, qname, agg in ((all_p, "all", all), (any_p, "any", any)):
                n += 1
                try:
                    exp = ("ok", agg(bool(ref_(v)) for v in xs))
                except Exception as e:  # noqa: BLE001  (e.g. unhashable element for `in`): the library must raise too
                    exp = ("raise", type(e).__name__)
                got = call(q(atom_), xs)
                if (got[0], bool(got[1]) if got[0] == "ok" else got[1]) != exp and not (got[0] == exp[0] == "raise"):
                    fails.append({"quantifier": qname, "element_predicate": aname, "items": repr(xs), "result": repr(got), "expected": repr(exp),
                                  "note": "plain-Python definition: " + qname + "(p(v) for v in x)"})
    # a library atom on one side of a connective, an instrumented atom on the other: the instrumented one is (not) called as the order demands
    from predicate.standard_predicates import is_falsy_p, is_truthy_p
    guards = [("is_not_none_p", is_not_none_p, lambda v: v is not None), ("is_none_p", is_none_p, lambda v: v is None), ("is_int_p", is_int_p, lambda v: isinstance(v, int)),
              ("is_str_p", is_str_p, lambda v: isinstance(v, str)), ("always_true_p", PP.always_true_p, lambda v: True), ("always_false_p", PP.always_false_p, lambda v: False),
              ("is_truthy_p", is_truthy_p, lambda v: bool(v)), ("is_falsy_p", is_falsy_p, lambda v: not v), ("eq_p(1)", eq_p(1), lambda v: v == 1)]
    for gname, g_, gref in guards:
        for x in (None, 0, 1, "s", ""):
            for other in (True, False):
                for side in ("left", "right"):
                    for opname, build, short in (("and", lambda a, b: a & b, False), ("or", lambda a, b: a | b, True)):
                        n += 1
                        del log[:]
                        rec = atom("R", other)
                        p_ = build(g_, rec) if side == "left" else build(rec, g_)
                        got = call(p_, x)
                        gv = bool(gref(x))
                        exp_val = (gv and other) if opname == "and" else (gv or other)
                        if side == "left":          # the library atom decides first; the recorder runs only when it does not decide
                            exp_calls = [] if gv == short else ["R"]
                        else:                       # the recorder is the left operand: it always runs, first
                            exp_calls = ["R"]
                        if got != ("ok", exp_val) or [c[0] for c in log] != exp_calls:
                            fails.append({"op": opname, "library_atom": gname, "library_atom_is_the": side + " operand", "other_operand_returns": other, "x": repr(x),
                                          "result": repr(got), "expected": exp_val, "calls_of_the_other_operand": [c[0] for c in log], "expected_calls": exp_calls})
    # the OPERATORS on library atoms of every class: (p & q)(x), (p | q)(x), (p ^ q)(x), (~p)(x) against p(x), q(x) combined by Python's own
    # and / or / != / not (an overload on one class, a re-association, a "smart" negation must not change a single answer)
    from collections.abc import Container, Iterable
    from predicate.standard_predicates import (ge_le_p, ge_lt_p, gt_le_p, gt_lt_p, gt_p, is_instance_p, lt_p, neg_p, pos_p, zero_p, eq_true_p, eq_false_p)
    from predicate.set_predicates import not_in_p, is_subset_p
    ops_atoms = [is_instance_p(int, float, str), is_instance_p(bool, str), is_int_p, is_bool_p, is_str_p, is_float_p, is_instance_p(Iterable, int),
                 is_instance_p(Container, int), ge_le_p(0.0, 1.0), ge_lt_p(0, 2), gt_le_p(0, 2), gt_lt_p(0.0, 1.0), ge_le_p(1, 1), ge_p(1), gt_p(1), le_p(1),
                 lt_p(3), eq_p(1), ne_p(1), in_p(1, 2), not_in_p(1, 2), is_none_p, is_not_none_p, PP.always_true_p, PP.always_false_p, is_truthy_p, is_falsy_p,
                 neg_p, zero_p, pos_p, eq_true_p, eq_false_p, PP.is_empty_p, is_subset_p({1, 2})]
    ops_values = [True, False, 0, 1, 0.5, 2, nan, "a", None, [1, 2], (1,), 3.5, {1}, -1]

    def raw(a, x):
        try:
            return ("ok", bool(a(x)))
        except Exception as e:  # noqa: BLE001
            return ("raise", type(e).__name__)
    pairs_ = list(itertools.product(range(len(ops_atoms)), repeat=2))
    if not payload.get("deep") and payload.get("tier") == "quick":
        pairs_ = rng.sample(pairs_, 500)
    bad_ops = 0
    for i_, j_ in pairs_:
        a_, b_ = ops_atoms[i_], ops_atoms[j_]
        try:
            built = {"&": a_ & b_, "|": a_ | b_, "^": a_ ^ b_}
        except Exception as e:  # noqa: BLE001
            fails.append({"case": "building p OP q raised", "p": repr(a_), "q": repr(b_), "error": f"{type(e).__name__}: {e}"})
            continue
        for x in ops_values:
            pv, qv = raw(a_, x), raw(b_, x)
            for sym, node in built.items():
                n += 1
                if pv[0] == "raise":
                    exp_ = pv
                elif sym == "&":
                    exp_ = ("ok", False) if not pv[1] else qv
                elif sym == "|":
                    exp_ = ("ok", True) if pv[1] else qv
                else:
                    exp_ = qv if qv[0] == "raise" else ("ok", pv[1] != qv[1])
                got_ = raw(node, x)
                if got_ != exp_ and not (got_[0] == exp_[0] == "raise"):
                    bad_ops += 1
                    if bad_ops <= 4:
                        fails.append({"case": f"(p {sym} q)(x) differs from p(x) {'and' if sym == '&' else 'or' if sym == '|' else '!='} q(x)", "p": repr(a_), "q": repr(b_),
                                      "x": repr(x), "p(x)": repr(pv), "q(x)": repr(qv), "result": repr(got_), "expected": repr(exp_), "built_node": repr(node)})
    for a_ in ops_atoms:
        try:
            na = ~a_
        except Exception as e:  # noqa: BLE001
            fails.append({"case": "building ~p raised", "p": repr(a_), "error": f"{type(e).__name__}: {e}"})
            continue
        for x in ops_values:
            n += 1
            pv = raw(a_, x)
            exp_ = pv if pv[0] == "raise" else ("ok", not pv[1])
            got_ = raw(na, x)
            if got_ != exp_ and not (got_[0] == exp_[0] == "raise"):
                fails.append({"case": "(~p)(x) differs from not p(x)", "p": repr(a_), "x": repr(x), "p(x)": repr(pv), "result": repr(got_), "expected": repr(exp_),
                              "built_node": repr(na)})
                break
    # LARGE collections and LONG chains (beyond any small enumeration)
    big_colls = [([1] * 300 + [1.0], "all", "type(v) is int", lambda v: type(v) is int), ([1.0] + [1] * 300, "all", "type(v) is int", lambda v: type(v) is int),
                 (list(range(400)) + [0.0], "all", "type(v) is int", lambda v: type(v) is int), ([0] * 1000 + [5], "any", "v > 3", lambda v: v > 3),
                 (tuple([True] * 70 + [1]), "all", "type(v) is bool", lambda v: type(v) is bool), (list(range(70)) + [2.0], "any", "type(v) is float", lambda v: type(v) is float)]
    for items, qname, bname, beh in big_colls:
        n += 1
        del log[:]
        q = all_p if qname == "all" else any_p
        k, r = call(q(atom("A", beh)), items)
        vals = [beh(v) for v in items]
        exp = all(vals) if qname == "all" else any(vals)
        stop = next((i for i, b in enumerate(vals) if b == (qname == "any")), None)
        limit = len(items) if stop is None else stop + 1
        if k != "ok" or r != exp or len(log) > limit:
            fails.append({"quantifier": qname, "element_predicate": bname, "items": f"{len(items)} items, e.g. {items[:2]!r} ... {items[-2:]!r}", "result": repr(r), "expected": exp,
                          "calls": len(log), "at_most": limit})
    n += 1
    big_range = range(1_000_005)
    if call(any_p(ge_p(1_000_002)), big_range) != ("ok", True) or call(all_p(le_p(1_000_003)), big_range) != ("ok", False):
        fails.append({"quantifier": "any/all", "items": "range(1_000_005)", "result": repr((call(any_p(ge_p(1_000_002)), big_range), call(all_p(le_p(1_000_003)), big_range))),
                      "expected": "(True, False)"})
    import functools
    import operator
    for k_ in (5, 30, 60, 130):
        for opname, fold, guard_, rest, x, want in (("and", operator.and_, is_int_p, lambda i: gt_p(-i), "abc", False), ("or", operator.or_, is_str_p, lambda i: lt_p(-i), "abc", True)):
            n += 1
            node = functools.reduce(fold, [guard_] + [rest(i) for i in range(k_)])
            got = call(node, x)
            if got != ("ok", want):
                fails.append({"case": f"left-nested chain of {k_ + 1} operands joined by {opname}: the first operand decides, nothing after it may be evaluated",
                              "x": repr(x), "result": repr(got), "expected": want})
        del log[:]
        order = functools.reduce(operator.and_, [atom(f"a{i}", True) for i in range(k_)])
        call(order, 0)
        if [c[0] for c in log] != [f"a{i}" for i in range(k_)]:
            fails.append({"case": f"evaluation order of a {k_}-operand & chain", "calls": [c[0] for c in log][:8], "expected_first": [f"a{i}" for i in range(8)]})
    # COMPOSITES OF COMPOSITES: every tree of 3 and 4 instrumented atoms under &, |, ^ (both associations) and ~ on a sub-tree: the answer and
    # the exact sequence of atom calls are those of Python's own and / or / != / not, evaluated recursively
    def oracle(spec, x, calls):
        kind = spec[0]
        if kind == "atom":
            calls.append(spec[1])
            if spec[2] == "raise":
                raise RuntimeError(spec[1])
            return spec[2]
        if kind == "not":
            return not oracle(spec[1], x, calls)
        a = oracle(spec[1], x, calls)
        if kind == "and":
            return a and oracle(spec[2], x, calls)
        if kind == "or":
            return a or oracle(spec[2], x, calls)
        return a != oracle(spec[2], x, calls)

    def build_spec(spec):
        if spec[0] == "atom":
            return atom(spec[1], spec[2])
        if spec[0] == "not":
            return ~build_spec(spec[1])
        a, b = build_spec(spec[1]), build_spec(spec[2])
        return {"and": a & b, "or": a | b, "xor": a ^ b}[spec[0]]

    def show(spec):
        if spec[0] == "atom":
            return f"{spec[1]}={spec[2]}"
        if spec[0] == "not":
            return f"~({show(spec[1])})"
        return f"({show(spec[1])} {dict(zip(('and', 'or', 'xor'), '&|^'))[spec[0]]} {show(spec[2])})"
    ops3 = ("and", "or", "xor")
    specs = []
    for o1, o2 in itertools.product(ops3, repeat=2):
        for bits in itertools.product((True, False), repeat=3):
            a, b, c = (("atom", nm, bv) for nm, bv in zip("abc", bits))
            specs += [(o1, (o2, a, b), c), (o1, a, (o2, b, c))]
            if bits[0] and o1 == "xor":
                specs += [(o1, ("not", (o2, a, b)), c), ("not", (o1, a, (o2, b, c)))]
    for o1, o2, o3 in itertools.product(ops3, repeat=3):
        for bits in itertools.product((True, False), repeat=4):
            a, b, c, d = (("atom", nm, bv) for nm, bv in zip("abcd", bits))
            specs.append((o1, (o2, a, b), (o3, c, d)))
            if o1 == o2 == o3:
                specs += [(o1, (o1, (o1, a, b), c), d), (o1, a, (o1, b, (o1, c, d)))]
    for o1, o2 in itertools.product(ops3, repeat=2):          # a raising atom in every position of a 3-leaf tree
        for pos in range(3):
            for bits in itertools.product((True, False), repeat=2):
                vals = list(bits)
                vals.insert(pos, "raise")
                a, b, c = (("atom", nm, bv) for nm, bv in zip("abc", vals))
                specs += [(o1, (o2, a, b), c), (o1, a, (o2, b, c))]
    bad_kinds = set()
    for spec in specs:
        n += 1
        want_calls = []
        try:
            want = oracle(spec, 0, want_calls)
        except RuntimeError:
            want = "raise"
        del log[:]
        k, r = call(build_spec(spec), 0)
        got = "raise" if k == "raise" else r
        if (got != want or [c[0] for c in log] != want_calls) and len(bad_kinds) < 4:
            bad_kinds.add(show(spec))
            fails.append({"case": "composite of composites over instrumented atoms (name=answer)", "tree": show(spec), "x": "0", "result": repr(got), "expected": repr(want),
                          "calls": [c[0] for c in log], "expected_calls": want_calls})
    # the same on LIBRARY atoms: three ordered atoms that are all true / partly true at x
    for a, b, c in ((ge_p(2), ge_p(4), ge_p(6)), (is_int_p, gt_p(0), lt_p(10)), (ne_p(0), ne_p(1), ne_p(2))):
        for x in (0, 1, 3, 5, 6, 7, 12, -1):
            pa, pb, pc = call(a, x)[1], call(b, x)[1], call(c, x)[1]
            for label, node, want in (("(a ^ b) ^ c", (a ^ b) ^ c, (pa != pb) != pc), ("a ^ (b ^ c)", a ^ (b ^ c), pa != (pb != pc)),
                                      ("(a & b) ^ c", (a & b) ^ c, (pa and pb) != pc), ("a | (b ^ c)", a | (b ^ c), pa or (pb != pc)),
                                      ("~(a ^ b) & c", ~(a ^ b) & c, (not (pa != pb)) and pc), ("(a ^ b) ^ (c ^ a)", (a ^ b) ^ (c ^ a), (pa != pb) != (pc != pa))):
                n += 1
                got = call(node, x)
                if got != ("ok", bool(want)):
                    fails.append({"case": f"{label} with a, b, c = {a!r}, {b!r}, {c!r}", "x": repr(x), "result": repr(got), "expected": bool(want)})
    # quantifier inside quantifier: rows whose elements are themselves iterable (tuples, strings): for-all / exists over the ROWS of
    # for-all / exists over each row's OWN elements, nothing flattened, stopping at the first deciding row and element
    tables = [[[(0, 0), (1, 2)], [(3, 4)]], [[1, (2, 3)]], ["aei", "ou"], ["ab", "e"], [[1, 2], [3]], [[], [1]], [], [[]], [[(1,)], []], [("ab", "cd"), ("e",)],
              [[1, [2]], [3]], [[[1, 2]], [[3]]]]
    elem = (("type(v) is tuple", lambda v: type(v) is tuple), ("type(v) is int", lambda v: type(v) is int), ("v in 'aeiou'", lambda v: isinstance(v, str) and v in "aeiou"),
            ("type(v) is list", lambda v: type(v) is list))
    for tb in tables:
        for bname, beh in elem:
            for (qo, fo, no), (qi, fi, ni) in itertools.product(((all_p, all, "all_p"), (any_p, any, "any_p")), repeat=2):
                n += 1
                seen = []

                def f_(v, beh=beh, seen=seen):
                    seen.append(v)
                    return beh(v)
                try:
                    want = fo(fi(f_(v) for v in row) for row in tb)
                    want_seen = list(seen)
                except TypeError:
                    continue                    # a row that is not iterable: outside the property
                del log[:]
                got = call(qo(qi(atom("A", beh))), tb)
                if got != ("ok", want) or [c[1] for c in log] != want_seen:
                    fails.append({"case": f"{no}({ni}(atom)) with atom = {bname}", "x": repr(tb), "result": repr(got), "expected": want,
                                  "atom_called_on": repr([c[1] for c in log])[:200], "expected_calls_on": repr(want_seen)[:200]})
    # nested comp_p: comp_p(f, comp_p(g, p))(x) is p(g(f(x)))
    for f_, g_, x, want in ((len, str, "abc", "3"), (len, str, [7, 8, 9], "3"), (str, len, 12345, 5), (lambda v: v + 1, lambda v: v * 2, 3, 8), (lambda v: v * 2, lambda v: v + 1, 3, 7)):
        n += 1
        leaf = atom("P", lambda v, want=want: v == want)
        del log[:]
        got = call(comp_p(f_, comp_p(g_, leaf)), x)
        if got != ("ok", True) or [c[1] for c in log] != [want]:
            fails.append({"case": "comp_p(f, comp_p(g, p))(x) must be p(g(f(x)))", "x": repr(x), "result": repr(got), "p_was_called_with": repr([c[1] for c in log]), "expected_argument": repr(want)})
    # HISTORY on ONE object: comp_p(f, p) applies f at EVERY call (inputs that are == but not the same value, one after the other);
    # tee_p(f) calls f exactly once per call also after an earlier call in which f raised; all_p / any_p stop at the first
    # counter-example / witness of an ITERATOR and leave the rest of it unconsumed
    import math as _math
    seqs = [("comp_p(str, eq_p('1.0'))", lambda: comp_p(str, PP.EqPredicate(v="1.0")), [True, 1.0, 1, 1.0], lambda x: str(x) == "1.0"),
            ("comp_p(lambda x: math.copysign(1.0, x), lt_p(0))", lambda: comp_p(lambda x: _math.copysign(1.0, x), lt_p(0)), [0.0, -0.0, 0, -0.0], lambda x: _math.copysign(1.0, x) < 0),
            ("comp_p(lambda t: type(t[0]), eq_p(float))", lambda: comp_p(lambda t: type(t[0]), PP.EqPredicate(v=float)), [(1, 2), (1.0, 2.0), (True, 2)], lambda t: type(t[0]) is float),
            ("comp_p(type, eq_p(bool))", lambda: comp_p(type, PP.EqPredicate(v=bool)), [1, True, 1.0, True, 0, False], lambda x: type(x) is bool),
            ("comp_p(repr, eq_p('1'))", lambda: comp_p(repr, PP.EqPredicate(v="1")), [1.0, 1, True, 1], lambda x: repr(x) == "1")]
    for label, mk, xs, want in seqs:
        p = mk()
        for i, x in enumerate(xs):
            n += 1
            got = call(p, x)
            if got != ("ok", want(x)):
                fails.append({"case": f"{label}: ONE object called on {xs!r} in turn", "x": repr(x), "call_number": i + 1, "result": repr(got), "expected": want(x)})
                break
    seen_by_f = []

    def audit(v):
        seen_by_f.append(v)
        if v == "six":
            raise ValueError("audit refuses 'six'")
    tp = all_p(tee_p(audit) & ge_p(2))
    for xs, want_seen in (([3, 4], [3, 4]), ([5, "six", 7], [5, "six"]), ([8, 9], [8, 9])):
        n += 1
        del seen_by_f[:]
        got = call(tp, xs)
        if seen_by_f != want_seen:
            fails.append({"case": "ONE all_p(tee_p(audit) & ge_p(2)) called on [3, 4], then [5, 'six', 7] (audit raises on 'six'; caught by the caller), then [8, 9]",
                          "x": repr(xs), "result": repr(got), "f_was_called_with": repr(seen_by_f), "expected_calls_of_f": repr(want_seen)})
            break
    single = tee_p(audit)
    del seen_by_f[:]
    n += 1
    if call(single, 10) != ("ok", True) or seen_by_f != [10]:
        fails.append({"case": "tee_p(audit)(10) after an earlier tee_p call in which audit raised", "result": repr(call(single, 10)), "f_was_called_with": repr(seen_by_f), "expected_calls_of_f": "[10]"})
    data = [1, 2, 9, 3, 4, 12, 5]
    it = iter(data)
    steps = [("all_p(lt_p(5))", all_p(lt_p(5)), False, [3, 4, 12, 5]), ("any_p(gt_p(10))", any_p(gt_p(10)), True, [5]), ("all_p(lt_p(5))", all_p(lt_p(5)), False, [])]
    for label, q, want, rest in steps:
        n += 1
        got = call(q, it)
        it, probe = itertools.tee(it)
        left = list(probe)
        if got != ("ok", want) or left != rest:
            fails.append({"case": "one iterator over [1, 2, 9, 3, 4, 12, 5] handed to all_p(lt_p(5)), any_p(gt_p(10)), all_p(lt_p(5)) in turn: each stops at its first "
                                  "counter-example / witness and leaves the rest", "step": label, "result": repr(got), "expected": want, "left_in_the_iterator": repr(left), "expected_left": repr(rest)})
            break
    # an element predicate that raises StopIteration (it drives an iterator of its own): plain Python's all(p(v) for v in x) turns that into
    # RuntimeError; it must never be taken for the end of the collection
    for qname, q_ in (("all_p", all_p), ("any_p", any_p)):
        expected_it = iter([1, 2, 3])
        want_eq = (lambda row: next(expected_it) == row) if qname == "all_p" else (lambda row: next(expected_it) != row)
        n += 1
        got = call(q_(fn_p(want_eq)), [1, 2, 3, 999])
        if got[0] != "raise":
            fails.append({"case": f"{qname}(fn_p(lambda row: next(expected) ... row)) with expected = iter([1, 2, 3]) on [1, 2, 3, 999]: the element predicate raises StopIteration "
                                  "at the 4th item", "result": repr(got), "expected": "an exception (plain Python: RuntimeError: generator raised StopIteration)"})
    # the same tee_p under the interpreter's optimisation levels (-O / -OO strip assert and `if __debug__:` blocks)
    import subprocess as _sp
    import sys as _sys7
    src_ = "from predicate import tee_p\nseen = []\nr = tee_p(seen.append)(5)\nprint(r, seen)\n"
    for flags in ([], ["-O"], ["-OO"]):
        n += 1
        try:
            out_ = _sp.run([_sys7.executable] + flags + ["-c", src_], env=vlib.ENV, text=True, stdout=_sp.PIPE, stderr=_sp.STDOUT, timeout=300).stdout.strip()
        except Exception as e_:  # noqa: BLE001
            out_ = f"could not run: {e_}"
        if out_ != "True [5]":
            fails.append({"case": "tee_p(seen.append)(5) in a fresh interpreter started as `python " + " ".join(flags) + " -c ...`", "result": out_, "expected": "True [5]"})
    # comp_p on the same (mutable) object twice: f is applied at every call, to the object as it is now
    calls = []
    cp = comp_p(lambda x: (calls.append(list(x)), len(x))[1], atom("P", lambda v: v <= 2))
    b = ["apple", "pear"]
    r1 = call(cp, b)
    r1b = call(cp, b)
    b.append("plum")
    r2 = call(cp, b)
    n += 3
    if (r1, r1b, r2) != (("ok", True), ("ok", True), ("ok", False)) or len(calls) != 3:
        fails.append({"case": "comp_p(len, p) called on the same list before and after list.append: p(f(x)) must be recomputed at every call",
                      "results": repr((r1, r1b, r2)), "expected": "True, True, False", "calls_of_f": repr(calls)})
    d = {"a": 1}
    dp = comp_p(lambda x: len(x), atom("P", lambda v: v == 1))
    r1 = call(dp, d)
    d["b"] = 2
    r2 = call(dp, d)
    if (r1, r2) != (("ok", True), ("ok", False)):
        fails.append({"case": "comp_p(len, eq 1) on a dict before and after adding a key", "results": repr((r1, r2)), "expected": "True, False"})
    del log[:]
    calls = []
    p = comp_p(lambda x: (calls.append(x), x + 1)[1], atom("P", lambda v: v == 4))
    if call(p, 3) != ("ok", True) or calls != [3] or log != [("P", 4)]:
        fails.append({"case": "comp_p(f, p)(x) must be p(f(x)) with f called once", "calls_of_f": repr(calls), "calls_of_p": repr(log)})
    calls = []
    t = tee_p(lambda x: calls.append(x))
    if call(t, 7) != ("ok", True) or calls != [7]:
        fails.append({"case": "tee_p(f)(x) must call f exactly once and return True", "calls_of_f": repr(calls)})
    del log[:]
    g = is_str_p & atom("G", lambda v: v.startswith("a"))
    if call(g, 5) != ("ok", False) or log:
        fails.append({"case": "a type guard on the left must protect the right operand", "result": repr(call(g, 5)), "calls": repr(log)})
    n += 3
    if call(~atom("N", True), 0) != ("ok", False):
        fails.append({"case": "~p"})
    return {"evaluations": n, "failures": fails[:5], "known_hits": [], "samples": [{"op": "and", "left": False, "right": "raise", "expected": False}]}


def replay(payload):
    return {"fails": True, "input": payload["replay"].get("input")}


if __name__ == "__main__":
    main({"correspondence": correspondence, "search": search, "replay": replay})
