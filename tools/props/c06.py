"""C06 — predicate equality is a congruence.
correspondence: `p == q` vs the model's peq on all pairs of a constructor x parameter grid (every class of the model).
search:         p == q must imply equal answers wherever both are defined; reflexive, symmetric; can_optimize(p) == (optimize(p) != p)."""
import itertools

from common import call, enc, eval_codes, gen, main, rng_of
from optcommon import atoms_defined, skey

from predicate import can_optimize, optimize
from predicate import predicate as PP
from predicate.named_predicate import NamedPredicate
from predicate.standard_predicates import (all_p, any_p, comp_p, fn_p, has_key_p, has_length_p, is_set_of_p, lazy_p, regex_p,
                                           tee_p, this_p, root_p)


def grid():
    mk = gen.scalar_atom_makers(consts=[0, 1, 2], with_fn=True) + gen.set_atom_makers()
    ps = [m() for m in mk]
    ps += [has_key_p(1), has_key_p(2), has_length_p(1), has_length_p(2), regex_p("^a"), regex_p("^a"), regex_p("b$"),
           lazy_p("x"), lazy_p("y"), tee_p(enc.FN_LIB[0][0]), tee_p(enc.FN_LIB[1][0]), fn_p(enc.FN_LIB[0][0]),
           comp_p(enc.COMP_LIB[0][0], PP.GePredicate(v=1)), comp_p(enc.COMP_LIB[1][0], PP.GePredicate(v=1)),
           comp_p(enc.COMP_LIB[0][0], PP.GePredicate(v=2)), NamedPredicate(name="p"), NamedPredicate(name="q"),
           NamedPredicate(name="p"), 1.0 and PP.EqPredicate(v=1.0), PP.EqPredicate(v=True),
           this_p.predicate, this_p.predicate, root_p.predicate, root_p.predicate,
           PP.is_empty_p, PP.is_not_empty_p]
    el = ps[:6]
    ps += [all_p(e) for e in el] + [any_p(e) for e in el] + [is_set_of_p(e) for e in el[:3]]
    a, b, c = ps[0], ps[7], ps[20]
    for op in ("and", "or", "xor"):
        ps += [gen.mk(op, a, b), gen.mk(op, b, a), gen.mk(op, a, c), gen.mk(op, gen.mk(op, a, b), c), gen.mk(op, c, gen.mk(op, b, a))]
    ps += [gen.mk("not", a), gen.mk("not", b), gen.mk("not", gen.mk("not", a))]
    return ps


def extra_grid():
    """search only (not every member is a term of the model): repeated operands, twins that print alike, closures"""
    a, b, c = PP.GePredicate(v=0), PP.LePredicate(v=10), PP.EqPredicate(v=1)
    ps = []
    for op in ("and", "or", "xor"):
        ps += [gen.mk(op, a, b), gen.mk(op, a, a), gen.mk(op, b, b), gen.mk(op, b, a), gen.mk(op, a, c), gen.mk(op, c, c),
               gen.mk(op, gen.mk(op, a, b), gen.mk(op, a, b)), gen.mk(op, gen.mk(op, a, b), gen.mk(op, a, a))]
    for ma, mb in gen.twin_makers():
        ps += [ma(), mb(), ma()]
        ps += [gen.mk("or", ma(), ma()), gen.mk("or", ma(), mb()), gen.mk("and", mb(), ma()), gen.mk("and", mb(), mb())]
    # variables that differ only in their current value (what __call__ returns)
    try:
        ps += [NamedPredicate(name="a", v=True), NamedPredicate(name="a", v=False), NamedPredicate(name="a", v=True)]
    except TypeError:
        va, vb = NamedPredicate(name="a"), NamedPredicate(name="a")
        va.v, vb.v = True, False
        ps += [va, vb]
    # classes with list-/object-valued parameters
    import re as _re
    from predicate.standard_predicates import is_dict_of_p, is_int_p, is_str_p, is_tuple_of_p, has_key_p
    ps += [is_dict_of_p(("a", is_int_p)), is_dict_of_p(("a", is_int_p), ("b", is_str_p)), is_dict_of_p(("b", is_str_p), ("a", is_int_p)),
           is_dict_of_p(("a", is_str_p)), is_dict_of_p((is_str_p, is_int_p)), is_dict_of_p(("a", is_int_p)),
           is_dict_of_p(("a", is_str_p), ("b", is_int_p)), is_dict_of_p(("b", is_int_p), ("a", is_str_p)), is_dict_of_p(("a", is_int_p), ("b", is_int_p)),
           is_dict_of_p(("a", is_str_p), ("b", is_str_p)), is_dict_of_p(("a", is_int_p), ("b", is_str_p), ("c", is_int_p)),
           is_dict_of_p(("a", is_int_p), ("c", is_str_p), ("b", is_int_p)), is_dict_of_p(("a", is_int_p), ("a", is_str_p)), is_dict_of_p(),
           is_tuple_of_p(is_int_p, is_str_p, is_int_p), is_tuple_of_p(is_int_p, is_int_p, is_str_p), is_tuple_of_p(is_tuple_of_p(is_int_p, is_str_p)),
           is_tuple_of_p(is_tuple_of_p(is_str_p, is_int_p)), all_p(is_tuple_of_p(is_int_p)), all_p(is_tuple_of_p(is_int_p, is_int_p)),
           all_p(is_dict_of_p(("a", is_int_p), ("b", is_str_p))), all_p(is_dict_of_p(("a", is_str_p), ("b", is_int_p))),
           is_tuple_of_p(is_int_p), is_tuple_of_p(is_int_p, is_str_p), is_tuple_of_p(is_str_p, is_int_p), is_tuple_of_p(is_int_p, is_int_p), is_tuple_of_p(),
           regex_p("foo"), regex_p("foo"), regex_p("Foo"), regex_p("a.b"), has_key_p("a"), has_key_p("b")]
    for rx in (_re.compile("foo", _re.IGNORECASE), _re.compile("a.b", _re.DOTALL), _re.compile("foo")):
        try:
            ps.append(regex_p(rx))          # only where the library accepts a compiled pattern
        except Exception:  # noqa: BLE001
            pass
    return ps


def _fn_desc(p):
    f = getattr(p, "predicate_fn", None) or getattr(p, "fn", None)
    if f is None or not hasattr(f, "__code__"):
        return None
    return {"defaults": repr(f.__defaults__), "kwdefaults": repr(f.__kwdefaults__), "closure": repr([c.cell_contents for c in (f.__closure__ or ())]),
            "globals_used": repr({k: f.__globals__.get(k) for k in f.__code__.co_names if k in f.__globals__ and k.isupper()})}


def big_pairs():
    """(p, q, values): pairs that differ in something that affects the result, with the values that tell them apart"""
    from predicate.standard_predicates import eq_p, ge_p, le_p, ne_p, gt_p, lt_p, ge_le_p, ge_lt_p, gt_le_p, gt_lt_p
    out = []
    a, b, c, d, e, f = ge_p(10), le_p(20), eq_p(100), ne_p(7), gt_p(50), lt_p(-3)
    ints = list(range(-8, 112))

    def ch(op, ops):
        t = ops[0]
        for o in ops[1:]:
            t = gen.mk(op, t, o)
        return t
    for op in ("xor", "and", "or"):
        for l1, l2 in (([a, a, b, c, d], [a, b, b, c, d]), ([a, a, b, c, d, e], [a, b, c, d, e, e]), ([a, a, a, b, c], [a, b, b, b, c]),
                       ([a, b, c, d, e, f], [f, e, d, c, b, a]), ([a, b, c, d, e], [a, b, c, d, f]), ([a, a, b, c, d, e, f], [a, b, c, d, e, f, f]),
                       ([a, b, c, d, e, a], [a, b, c, d, e, b]), ([a] * 5 + [b], [a] + [b] * 5), ([a, b, c, d, a, b, c, d], [a, b, c, d, a, b, c, c])):
            out.append((ch(op, l1), ch(op, l2), ints))
            out.append((ch(op, l1), ch(op, l2[::-1]), ints))
    near = [(1e10, 1e10 + 1), (0.1 + 0.2, 0.3), (1e16, 10 ** 16 + 1), (2 ** 53, 2 ** 53 + 1), (float(2 ** 53), 2 ** 53 + 1), (1e300, 1.0000000000000002e300),
            (10 ** 30, 10 ** 30 + 1), (1.0, 1 + 2 ** -52), (123456789012.0, 123456789013.0), (-1e12, -1e12 - 1)]
    for u, v in near:
        xs = [u, v, (u + v) / 2 if isinstance(u, float) or isinstance(v, float) else (u + v) // 2, int(u), int(v), int(max(u, v)), int(min(u, v))]
        lo = min(u, v) - abs(u) - 10
        hi = max(u, v) + abs(u) + 10
        for mk in (eq_p, ne_p, ge_p, gt_p, le_p, lt_p):
            out.append((mk(u), mk(v), xs))
        for mk in (ge_le_p, ge_lt_p, gt_le_p, gt_lt_p):
            try:
                out.append((mk(lo, u), mk(lo, v), xs))
                out.append((mk(u, hi), mk(v, hi), xs))
            except Exception:  # noqa: BLE001
                pass
    src = "lambda s, *, limit=LIM: len(s) > limit"
    k3, k12 = eval(src.replace("LIM", "3")), eval(src.replace("LIM", "12"))
    same_code = [eval("lambda s, *, limit=3: len(s) > limit"), ]
    mkk = lambda n_: (lambda s, *, limit=n_: len(s) > limit)  # noqa: E731
    mkd = lambda n_: (lambda s, limit=n_: len(s) > limit)  # noqa: E731
    mkc = lambda n_: (lambda s: len(s) > n_)  # noqa: E731
    g1, g2 = {"LIMIT": 3}, {"LIMIT": 12}
    fg1, fg2 = eval("lambda s: len(s) > LIMIT", g1), eval("lambda s: len(s) > LIMIT", g2)
    words = ["", "ab", "hello", "hello world!!", "x" * 40]
    for f1, f2 in ((mkk(3), mkk(12)), (mkd(3), mkd(12)), (mkc(3), mkc(12)), (fg1, fg2), (k3, k12), (mkk(3), mkd(3)), (str.upper, str.lower), (len, len)):
        out.append((fn_p(f1), fn_p(f2), words))
        try:
            out.append((tee_p(f1), tee_p(f2), words))
            out.append((comp_p(f1, PP.EqPredicate(v=True)), comp_p(f2, PP.EqPredicate(v=True)), words))
        except Exception:  # noqa: BLE001
            pass
    return out


VALUES = gen.SCALAR_VALUES + [[], [1], [1, 2], set(), {1}, {1, 2}, {1: 1}, {2: 0}, "abc", "ba"]


def correspondence(payload):
    rng = rng_of(payload)
    ps = grid()
    prs = list(itertools.product(range(len(ps)), repeat=2))
    if payload["tier"] == "quick":
        eq_pairs = [(i, j) for i, j in prs if ps[i] == ps[j]]
        prs = eq_pairs + rng.sample(prs, 6000)
    cx = enc.Ctx()
    items, exp, kept = [], [], []
    for i, j in prs:
        try:
            items.append(f"({cx.pred(ps[i])}, {cx.pred(ps[j])})")
        except enc.Unencodable:
            continue
        exp.append(1 if ps[i] == ps[j] else 0)
        kept.append((i, j))
    codes = eval_codes("c06", "", items, "Definition run (c : pred*pred) : nat := if peq (fst c) (snd c) then 1%nat else 0%nat.", chunk=1500)
    mism = [{"p": repr(ps[kept[k][0]]), "q": repr(ps[kept[k][1]]), "impl_eq": exp[k], "model_peq": c} for k, c in enumerate(codes) if c != exp[k]]
    return {"evaluations": len(items), "distinct_nontrivial": sum(exp), "equal_pairs": sum(exp),
            "rule": "ordered pairs over ~180 predicates covering every class of the model with 2-3 parameter choices each (incl. 1 vs 1.0 vs True, "
                    "same/different regex, key, length, function, reference, distinct this_p/root_p nodes, commuted and re-associated &,|,^); "
                    "all equal pairs + a seeded sample (quick) or all pairs (thorough); `==` compared with peq; distinct_nontrivial = equal pairs",
            "samples": [{"p": repr(ps[kept[k][0]]), "q": repr(ps[kept[k][1]]), "equal": bool(exp[k])} for k in range(0, len(kept), max(1, len(kept) // 5))][:5],
            "mismatches": mism[:20]}


def search(payload):
    ps = grid() + extra_grid()
    values = VALUES + [v for v in gen.TWIN_VALUES if not any(v is w or (type(v) is type(w) and v == w) for w in VALUES)] + [11, -1, 100] + [
        "foo", "FOO", "Foo", "a\nb", "axb", {"a": 1}, {"a": 1, "b": "x"}, {"b": "x"}, {"a": "s"}, {"k": 2}, (1,), (1, "a"), ("a", 1), (1, 2),
        {"a": "x", "b": 1}, {"a": 1, "b": 2}, {"a": "x", "b": "y"}, {"a": 1, "b": "x", "c": 3}, {"a": 1, "c": "x", "b": 3}, {}, (1, "a", 2), (1, 2, "a"), ((1, "a"),), (("a", 1),),
        [(1,)], [(1, 2)], [{"a": 1, "b": "x"}], [{"a": "x", "b": 1}]]
    fails, n = [], 0
    for i, p in enumerate(ps):
        if not (p == p):
            fails.append({"p": repr(p), "kind": "not reflexive"})
        for j, q in enumerate(ps):
            e = (p == q)
            if e != (q == p):
                fails.append({"p": repr(p), "q": repr(q), "kind": "not symmetric"})
            if e and i != j and "this_p" not in repr(p) and "root_p" not in repr(p):
                for x in values:
                    if not (atoms_defined(p, x) and atoms_defined(q, x)):
                        continue
                    n += 1
                    if call(p, x) != call(q, x):
                        fails.append({"p": repr(p), "q": repr(q), "p_structure": skey(p), "q_structure": skey(q), "x": repr(x), "kind": "p == q but p(x) != q(x)",
                                      "p(x)": repr(call(p, x)), "q(x)": repr(call(q, x))})
                        break
        if len(fails) >= 5:
            break
    # beyond the small grid: long chains with repeated operands, bounds a few ulp / one unit apart at large magnitude, functions that
    # differ only in what the code object does not show
    for p, q, xs in big_pairs():
        try:
            e = (p == q)
        except Exception:  # noqa: BLE001
            continue
        n += 1
        try:
            if e != (q == p):
                fails.append({"p": repr(p)[:200], "q": repr(q)[:200], "kind": "not symmetric"})
        except Exception:  # noqa: BLE001
            pass
        if e:
            for x in xs:
                if call(p, x)[0] == "ok" and call(q, x)[0] == "ok" and call(p, x) != call(q, x):
                    fails.append({"p": repr(p)[:300], "q": repr(q)[:300], "p_structure": str(skey(p))[:600], "q_structure": str(skey(q))[:600], "x": repr(x),
                                  "kind": "p == q but p(x) != q(x)", "p(x)": repr(call(p, x)), "q(x)": repr(call(q, x)),
                                  "p_function": _fn_desc(p), "q_function": _fn_desc(q)})
                    break
    # HISTORY: (1) p == q, then p is asked about the values in one order and q in the opposite order (a per-object memo of earlier answers
    # or of f(x) shows as a difference); guards on either side of | and & (an operand that raises on what the other accepts);
    # (2) p == q, then something the library itself does to p (truth_table assigns its variables), then p == q again
    from predicate.standard_predicates import is_str_p as _isstr, is_int_p as _isint, ge_p as _ge0, regex_p as _rx, is_none_p as _isnone
    from predicate.parser import parse_expression as _parse
    from predicate.truth_table import truth_table as _tt
    seqvals = [1, True, 1.0, 0, False, 0.0, 7, 7.0, "a", "", "12", None, (1,), (1.0,), 2, "7"]
    hp = [(_isstr | _ge0(0), _ge0(0) | _isstr), (_isnone | _ge0(0), _ge0(0) | _isnone), (_isint & _ge0(0), _ge0(0) & _isint), (comp_p(str, _rx(r"^\d+$")), comp_p(str, _rx(r"^\d+$"))),
          (comp_p(type, PP.EqPredicate(v=int)), comp_p(type, PP.EqPredicate(v=int))), (comp_p(str, PP.EqPredicate(v="1.0")), comp_p(str, PP.EqPredicate(v="1.0"))),
          (all_p(comp_p(str, _rx(r"^\d$"))), all_p(comp_p(str, _rx(r"^\d$")))), (is_set_of_p(_isint), is_set_of_p(_isint)), (all_p(_isint), all_p(_isint))]
    for p, q in hp:
        n += 1
        try:
            if not (p == q):
                continue
        except Exception:  # noqa: BLE001
            continue
        xs = seqvals + [[1], [True], [1.0], {1}, {1.0}, {True}]
        ap = [call(p, x) for x in xs]
        aq = [call(q, x) for x in xs[::-1]][::-1]
        for x, a, b in zip(xs, ap, aq):
            if a[0] == "ok" and b[0] == "ok" and a != b:
                fails.append({"p": repr(p), "q": repr(q), "p_structure": str(skey(p)), "q_structure": str(skey(q)), "x": repr(x), "kind": "p == q but p(x) != q(x)",
                              "p(x)": repr(a), "q(x)": repr(b), "history": f"p was asked about {xs!r} in this order, q in the opposite order"})
                break
    for text in ("a | b", "a & b", "(a ^ b) | c", "~a | b"):
        n += 1
        p, q = _parse(text), _parse(text)
        if p is None or q is None or not (p == q):
            continue
        list(_tt(p))                                   # the library assigns p's variables, row by row
        if p == q and call(p, None) != call(q, None):
            fails.append({"p": f"parse_expression({text!r})", "q": f"parse_expression({text!r}) (a second parse)", "x": "None", "kind": "p == q but p(x) != q(x)",
                          "p(x)": repr(call(p, None)), "q(x)": repr(call(q, None)), "history": "p == q was True; then list(truth_table(p)); p == q is still True although p's variables now hold the last row"})
    trees = [gen.build(gen.random_shape(rng_of(payload), 6, 3), [lambda k=k: ps[k] for k in (0, 7, 20, 30, 45, 60)]) for _ in range(300)]
    # twins in sequence, in both orders, in this one process (anything remembered under repr() confuses them)
    seq = []
    for ma, mb in gen.twin_makers():
        for op in ("or", "and", "xor"):
            seq += [gen.mk(op, ma(), ma()), gen.mk(op, ma(), mb()), gen.mk(op, mb(), mb()), gen.mk(op, mb(), ma()), gen.mk(op, ma(), ma())]
    history = []
    for t in trees + ps + seq + seq[::-1]:
        try:
            o = optimize(t)
        except Exception:  # noqa: BLE001
            continue
        n += 1
        history.append(repr(t))
        if can_optimize(t) != (o != t):
            fails.append({"p": repr(t), "p_structure": skey(t), "kind": "can_optimize(p) differs from optimize(p) != p", "can_optimize": can_optimize(t),
                          "optimize(p)": repr(o), "asked_before_in_this_process": history[-6:-1]})
            if len(fails) >= 8:
                break
    return {"evaluations": n, "failures": fails[:5], "known_hits": [], "samples": [{"p": repr(ps[3]), "q": repr(ps[3])}]}


def replay(payload):
    return {"fails": True, "input": payload["replay"].get("input")}


if __name__ == "__main__":
    main({"correspondence": correspondence, "search": search, "replay": replay})
