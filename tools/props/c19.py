"""C19 — construct(false_set, true_set) only yields predicates that separate the two example sets.

correspondence: (0) source fingerprint of construct.py and of the operators it goes through (the model Lemmas/Construct.v is
                    hand-written: a changed source means it may no longer describe the code);
                (a) the real `construct` run over exactly rounds 0 and 1 (stopped when create_mutations is entered for the
                    second time) on seeded pairs of small mixed-type example sets; the multiset of predicates it yields in each
                    round is compared inside Coq (order-insensitive, structural `same`) with the model's `yielded W0 fs ts 0/1`;
                    the pair ([], []) compares the complete candidate rounds (14 and 364 candidates);
                (b) the real `create_mutations` on seeded short lists of round-0/round-1 candidates (commuted and repeated
                    operands included) compared as a multiset with the model's `mutations` (ties `!=` on compound candidates).
search:         implementation only, plain-Python oracle: every predicate yielded in rounds 0..1 (all pairs) and in the complete
                round 2 (~264k candidates, a few pairs) must return True on every element of true_set and False on every element
                of false_set; when one of the eight built-in type tests (plain isinstance) separates the sets, the first yield must
                happen in round 0 (within the first 14 candidates examined).  The generator is infinite and silent when nothing
                separates: it is always stopped at a round boundary / candidate budget / alarm."""
import ast
import datetime
import json
import os
import signal
import uuid

from common import enc, main, rng_of, vlib, chunks

import predicate.constructor.construct as C
import predicate.predicate as PPm
import predicate.standard_predicates as SP
import predicate.all_predicate as AP

HERE = os.path.dirname(os.path.abspath(__file__))
FP_PATH = os.path.join(HERE, "fingerprints", "c19.json")
ROUND_SIZES = [14, 364, 263536]


# ------------------------------------------------------------------------------------------ fingerprint
def _tree(mod):
    return ast.parse(open(mod.__file__, encoding="utf-8").read())


def _find(tree, name, cls=None):
    body = tree.body
    if cls is not None:
        for n in body:
            if isinstance(n, ast.ClassDef) and n.name == cls:
                body = n.body
                break
        else:
            return f"<class {cls} not found>"
    for n in body:
        if isinstance(n, (ast.FunctionDef, ast.ClassDef)) and n.name == name:
            return ast.unparse(n)
    return f"<{name} not found>"


def fingerprint_now() -> dict:
    tp, ts, ta = _tree(PPm), _tree(SP), _tree(AP)
    return {
        "constructor/construct.py (whole module)": ast.unparse(_tree(C)),
        "predicate.py Predicate.__and__": _find(tp, "__and__", "Predicate"),
        "predicate.py Predicate.__or__": _find(tp, "__or__", "Predicate"),
        "predicate.py Predicate.__invert__": _find(tp, "__invert__", "Predicate"),
        "predicate.py resolve_predicate": _find(tp, "resolve_predicate"),
        "predicate.py AndPredicate.__eq__": _find(tp, "__eq__", "AndPredicate"),
        "predicate.py OrPredicate.__eq__": _find(tp, "__eq__", "OrPredicate"),
        "standard_predicates.py all_p": _find(ts, "all_p"),
        "all_predicate.py AllPredicate": _find(ta, "AllPredicate"),
    }


def fingerprint_mismatches() -> list:
    now = fingerprint_now()
    try:
        old = json.load(open(FP_PATH))
    except OSError:
        return [{"case": "fingerprint", "what": f"{FP_PATH} is missing"}]
    out = []
    for k in sorted(set(now) | set(old)):
        if now.get(k) != old.get(k):
            out.append({"case": "fingerprint", "what": f"source of `{k}` differs from the version Lemmas/Construct.v was written against",
                        "committed": (old.get(k) or "")[:600], "current": (now.get(k) or "")[:600]})
    return out


def write_fingerprint(payload):
    os.makedirs(os.path.dirname(FP_PATH), exist_ok=True)
    json.dump(fingerprint_now(), open(FP_PATH, "w"), indent=1, sort_keys=True)
    return {"written": FP_PATH}


# ------------------------------------------------------------------------------------------ bounded runs of the real generator
class _Stop(Exception):
    pass


class _Alarm(Exception):
    pass


def _on_alarm(signum, frame):
    raise _Alarm()


def run_construct(fs, ts, rounds: int, max_candidates: int | None = None, max_yields: int | None = None, seconds: float = 60.0):
    """Run the real construct(fs, ts) over the rounds 0 .. rounds-1 only.  Returns (yields, info) where yields is a list
    of (round, all_p_calls_so_far, predicate).  The generator is observed, not re-implemented: `create_mutations` and `all_p`
    as seen by the module are wrapped to count round boundaries and examined candidates and to stop the run."""
    state = {"round": 0, "all_p": 0}
    real_all, real_mut = getattr(C, "all_p", None), getattr(C, "create_mutations", None)
    if real_all is None or real_mut is None:
        # the module no longer has the two names the observation hooks into: observe the plain stream, bounded by yields and time only
        out, why = [], "yield budget (construct.py has no all_p / create_mutations to observe rounds through)"
        old = signal.signal(signal.SIGALRM, _on_alarm)
        signal.setitimer(signal.ITIMER_REAL, min(seconds, 5.0))
        try:
            for p in C.construct(fs, ts):
                out.append((0, len(out), p))
                if len(out) >= (max_yields or 40):
                    break
        except _Alarm:
            why = "alarm"
        except Exception as e:  # noqa: BLE001   (construct itself raised: judged by check_run)
            why = f"raised {type(e).__name__}: {e}"[:200]
        finally:
            signal.setitimer(signal.ITIMER_REAL, 0)
            signal.signal(signal.SIGALRM, old)
        return out, {"stopped_by": why, "rounds_entered": 1, "candidates_examined": len(out)}

    def all_w(p):
        state["all_p"] += 1
        if max_candidates is not None and state["all_p"] > 2 * max_candidates:
            raise _Stop()
        return real_all(p)

    def mut_w(cands):
        state["round"] += 1
        if state["round"] >= rounds:
            raise _Stop()
        return real_mut(cands)

    out, why = [], "round boundary"
    C.all_p, C.create_mutations = all_w, mut_w
    old = signal.signal(signal.SIGALRM, _on_alarm)
    signal.setitimer(signal.ITIMER_REAL, seconds)
    try:
        for p in C.construct(fs, ts):
            out.append((state["round"], state["all_p"], p))
            if max_yields is not None and len(out) >= max_yields:
                why = "yield budget"
                break
    except _Stop:
        pass
    except _Alarm:
        why = "alarm"
    except Exception as e:  # noqa: BLE001   (construct itself raised: judged by check_run)
        why = f"raised {type(e).__name__}: {e}"[:200]
    finally:
        signal.setitimer(signal.ITIMER_REAL, 0)
        signal.signal(signal.SIGALRM, old)
        C.all_p, C.create_mutations = real_all, real_mut
    return out, {"stopped_by": why, "rounds_entered": state["round"] + 1, "candidates_examined": state["all_p"] // 2}


# ------------------------------------------------------------------------------------------ example sets
DT1, DT2 = datetime.datetime(2020, 1, 1), datetime.datetime(1999, 12, 31, 23, 59)
POOL = {
    "int": [0, 1, 2, -7, 10 ** 12],
    "bool": [True, False],
    "float": [0.0, 2.5, -1.5, 1.0, float("inf")],
    "str": ["", "a", "abc", "1"],
    "none": [None],
    "list": [[], [1], [1, "a"], [[]], [None, 2.5]],
    "set": [set(), {1}, {1, 2}, {"a"}],
    "dict": [{}, {1: 2}, {"a": None}, {2.5: [1]}],
    "datetime": [DT1, DT2],
    "other": [(), (1, 2), 1j, range(0), range(3), b"", b"x", uuid.UUID(int=7), frozenset({1})],
}
TYPES = list(POOL)
# plain-Python oracle of the eight built-in type tests of initial_predicates()
TYPE_TESTS = {"is_bool_p": bool, "is_datetime_p": datetime.datetime, "is_dict_p": dict, "is_float_p": float, "is_int_p": int,
              "is_list_p": list, "is_set_p": set, "is_str_p": str}


def draw(rng, types, n):
    out = []
    for _ in range(n):
        out.append(rng.choice(POOL[rng.choice(types)]))
    return out


def set_pairs(rng, n):
    """(false_set, true_set) pairs: type-disjoint, fully mixed, overlapping, empty"""
    pairs = [([], []), ([], [1, "a"]), ([None], []), ([1], [1]), ([True], [3]), ([3], [True, False])]
    while len(pairs) < n:
        r = rng.random()
        if r < 0.45:      # the two sets use disjoint type groups: something in round 0 or 1 often separates
            k = rng.randint(2, 4)
            tys = rng.sample(TYPES, k)
            cut = rng.randint(1, k - 1)
            ts, fs = draw(rng, tys[:cut], rng.randint(1, 4)), draw(rng, tys[cut:], rng.randint(1, 4))
        elif r < 0.6:     # truthiness / None splits inside one type group
            tys = rng.sample(TYPES, rng.randint(1, 3))
            vals = draw(rng, tys, 6)
            ts, fs = [v for v in vals if v], [v for v in vals if not v]
            if rng.random() < 0.5:
                ts, fs = fs, ts
        elif r < 0.9:     # anything against anything
            ts, fs = draw(rng, TYPES, rng.randint(0, 4)), draw(rng, TYPES, rng.randint(0, 4))
        else:             # a shared element: nothing can separate
            ts, fs = draw(rng, TYPES, rng.randint(1, 3)), draw(rng, TYPES, rng.randint(0, 3))
            fs = fs + [rng.choice(ts)]
        pairs.append((fs, ts))
    return pairs


def separates(p, fs, ts) -> bool:
    """the property's statement, by plain calls"""
    return all(p(x) is True for x in ts) and all(p(x) is False for x in fs)


def type_test_separating(fs, ts):
    for name, k in TYPE_TESTS.items():
        if all(isinstance(x, k) for x in ts) and not any(isinstance(x, k) for x in fs):
            return name
    return None


# ------------------------------------------------------------------------------------------ correspondence
COQ_DEFS = """
From PP Require Import Lemmas.Construct.
Definition cnt (p : pred) (l : list pred) : nat := List.length (filter (same p) l).
Definition ms_eq (a b : list pred) : bool :=
  Nat.eqb (List.length a) (List.length b) && forallb (fun p => Nat.eqb (cnt p a) (cnt p b)) a.
"""
RUN_YIELDED = """
Definition run (c : (list val * list val) * (list pred * list pred)) : nat :=
  let '((fs, ts), (y0, y1)) := c in
  let m0 := yielded W0 fs ts 0%nat in let m1 := yielded W0 fs ts 1%nat in
  ((if ms_eq m0 y0 then 0 else 1) + (if ms_eq m1 y1 then 0 else 2) + 4 * (List.length m0 + 15 * List.length m1))%nat.
"""
RUN_MUT = """
Definition run (c : list pred * list pred) : nat :=
  let m := mutations (fst c) in ((if ms_eq m (snd c) then 0 else 1) + 2 * List.length m)%nat.
"""


def _eval(name, run_def, items, chunk):
    out = []
    for part in chunks(items, chunk):
        text = (enc.CASE_HEADER + enc.world_text() + COQ_DEFS + run_def
                + "\nDefinition cases := [\n" + ";\n".join(part) + "].\nEval vm_compute in map run cases.\n")
        res = vlib.parse_nat_list(vlib.coq_eval(name, text))
        if len(res) != len(part):
            raise vlib.Broken("correspondence", f"{name}: expected {len(part)} results, got {len(res)}")
        out += res
    return out


def correspondence(payload):
    rng = rng_of(payload)
    mism = fingerprint_mismatches()
    n_pairs = 160 if payload["tier"] == "quick" else 600
    pairs = set_pairs(rng, n_pairs)
    cx = enc.Ctx()
    items, kept, nontrivial, samples = [], [], set(), []
    for fs, ts in pairs:
        ys, info = run_construct(fs, ts, rounds=2, seconds=30)
        if info["stopped_by"] != "round boundary":
            mism.append({"case": "construct rounds 0-1", "false_set": repr(fs), "true_set": repr(ts),
                         "what": f"the generator did not reach the end of round 1 ({info})"})
            continue
        y0 = [p for r, _, p in ys if r == 0]
        y1 = [p for r, _, p in ys if r == 1]
        try:
            t = (f"(([{'; '.join(cx.val(x) for x in fs)}], [{'; '.join(cx.val(x) for x in ts)}]), "
                 f"([{'; '.join(cx.pred(p) for p in y0)}], [{'; '.join(cx.pred(p) for p in y1)}]))")
        except enc.Unencodable as e:
            mism.append({"case": "construct rounds 0-1", "false_set": repr(fs), "true_set": repr(ts), "what": f"a yielded predicate or a value is not in the model: {e}"})
            continue
        items.append(t)
        kept.append((fs, ts, y0, y1, info))
        if 0 < len(ys) < ROUND_SIZES[0] + ROUND_SIZES[1]:
            nontrivial.add((repr(fs), repr(ts)))
        if len(samples) < 5 and len(kept) % 30 == 7:
            samples.append({"false_set": repr(fs), "true_set": repr(ts), "round0": [repr(p) for p in y0][:6], "round1_count": len(y1),
                            "round1_first": [repr(p) for p in y1][:3]})
    codes = _eval("c19a", RUN_YIELDED, items, 40)
    for (fs, ts, y0, y1, info), c in zip(kept, codes):
        m0, m1 = (c // 4) % 15, c // 60
        if c % 4 != 0 or m0 != len(y0) or m1 != len(y1):
            mism.append({"case": "construct rounds 0-1", "false_set": repr(fs), "true_set": repr(ts),
                         "impl_round0": [repr(p) for p in y0], "impl_round1_count": len(y1), "impl_round1": [repr(p) for p in y1][:8],
                         "model_round0_count": m0, "model_round1_count": m1,
                         "differs_in": [r for r, bit in (("round 0", 1), ("round 1", 2)) if c & bit]})
    # the pair ([], []) yields every candidate: the full rounds must have the sizes proved for the model
    full = kept[0] if kept and kept[0][0] == [] and kept[0][1] == [] else None
    if full is not None and (len(full[2]), len(full[3])) != (ROUND_SIZES[0], ROUND_SIZES[1]):
        mism.append({"case": "candidate rounds", "what": f"rounds 0/1 have {len(full[2])}/{len(full[3])} candidates, the model has 14/364"})

    # (b) create_mutations on short candidate lists, compound operands included
    r0 = list(C.initial_predicates())
    r1 = list(C.create_mutations(r0))
    items2, kept2 = [], []
    n_lists = 60 if payload["tier"] == "quick" else 300
    for i in range(n_lists):
        k = rng.randint(2, 6)
        src = r0 if i % 3 == 0 else (r1 if i % 3 == 1 else r0 + r1)
        cs = [rng.choice(src) for _ in range(k)]
        if i % 3 != 0 and k >= 3:      # force equal-but-not-identical and repeated candidates
            a, b = rng.sample(r0, 2)
            cs[0], cs[1], cs[2] = a | b, b | a, a | b
        ms = list(C.create_mutations(cs))
        items2.append(f"([{'; '.join(cx.pred(p) for p in cs)}], [{'; '.join(cx.pred(p) for p in ms)}])")
        kept2.append((cs, ms))
    codes2 = _eval("c19b", RUN_MUT, items2, 60)
    for (cs, ms), c in zip(kept2, codes2):
        if c % 2 != 0 or c // 2 != len(ms):
            mism.append({"case": "create_mutations", "candidates": [repr(p) for p in cs], "impl": [repr(p) for p in ms][:12],
                         "impl_count": len(ms), "model_count": c // 2})
    return {"evaluations": len(items) + len(items2), "distinct_nontrivial": len(nontrivial),
            "set_pairs": len(items), "mutation_lists": len(items2),
            "yields_compared": sum(len(k[2]) + len(k[3]) for k in kept),
            "rule": "seeded pairs (false_set, true_set) of 0-4 values each from a mixed-type pool (int, bool, float incl. inf, str, None, list, set, "
                    "dict, datetime, tuple/complex/range/bytes/uuid/frozenset): type-disjoint, truthiness splits, fully mixed, overlapping and empty sets; "
                    "the real construct() is run over exactly rounds 0 and 1 and the multiset of predicates yielded per round is compared with the model's "
                    "`yielded W0 fs ts k` inside Coq; ([], []) compares all 14+364 candidates; plus create_mutations on short candidate lists vs `mutations`. "
                    "distinct_nontrivial = distinct set pairs for which rounds 0-1 yield some but not all candidates; source fingerprint compared first",
            "samples": samples, "mismatches": mism[:20]}


# ------------------------------------------------------------------------------------------ search
def check_run(fs, ts, ys, info, fails, where):
    """the property's two demands on one bounded run; returns the number of oracle evaluations"""
    n = 0
    for idx, (r, calls, p) in enumerate(ys):
        n += 1
        try:
            ok = separates(p, fs, ts)
        except Exception as e:  # noqa: BLE001
            ok = False
            bad = f"raises {type(e).__name__}: {e}"
        else:
            bad = None
        if not ok:
            wrong_t = [repr(x) for x in ts if _safe(p, x) is not True][:3]
            wrong_f = [repr(x) for x in fs if _safe(p, x) is not False][:3]
            fails.append({"kind": "yielded predicate does not separate the sets", "false_set": repr(fs), "true_set": repr(ts),
                          "predicate": repr(p), "stream_position": idx, "round": r, "not_True_on_true_set": wrong_t,
                          "not_False_on_false_set": wrong_f, "error": bad, "run": where})
            return n
    tt = type_test_separating(fs, ts)
    if tt is not None and str(info.get("stopped_by", "")).startswith("raised") and not ys:     # (an example's own exception met LATER in the stream is the example's business)
        fails.append({"kind": "construct() raised although a built-in type test separates the sets", "false_set": repr(fs), "true_set": repr(ts), "type_test": tt,
                      "error": info["stopped_by"], "run": where})
        return n + 1
    if tt is not None:
        n += 1
        first = ys[0] if ys else None
        if first is None or first[0] != 0:
            fails.append({"kind": "a built-in type test separates the sets but nothing is yielded in the first round",
                          "false_set": repr(fs), "true_set": repr(ts), "type_test": tt,
                          "first_yield": (None if first is None else {"predicate": repr(first[2]), "round": first[0], "candidates_examined": first[1] // 2}),
                          "run": where, "info": info})
    return n


def _safe(p, x):
    try:
        return p(x)
    except Exception as e:  # noqa: BLE001
        return f"raises {type(e).__name__}"


def search(payload):
    rng = rng_of(payload)
    rng.random()                      # a different stream than the correspondence run
    deep = bool(payload.get("deep")) or payload.get("tier") == "thorough"
    pairs = set_pairs(rng, 600 if deep else 250)
    if getattr(C, "all_p", None) is None or getattr(C, "create_mutations", None) is None:
        pairs = pairs[:30]            # rounds cannot be observed: every run is bounded by yields/time only, so fewer of them
    fails, n, samples, total_yields = [], 0, [], 0
    for fs, ts in pairs:
        ys, info = run_construct(fs, ts, rounds=2, seconds=30)
        total_yields += len(ys)
        n += check_run(fs, ts, ys, info, fails, "rounds 0-1")
        if len(fails) >= 12:
            break
    # LARGE example sets (33-120 examples; values equal across types far apart; one type with truthy and falsy members)
    big_pairs = [([0], list(range(1, 33)) + ["x"]), ([0], list(range(1, 34))), (["n/a", None], [1, 2, 3] * 25 + [2.0]), ([None, ""], list(range(1, 40)) + [0]),
                 (["a"] * 40 + [1.0], list(range(50))), ([True] * 33 + [0], ["s"] * 33), (list(range(40)), [None] * 35 + [False]),
                 ([None, ""], [0.5] * 70 + [1]), ([1.0] + [1] * 64, ["x", "y"]), ([[1]] * 33 + [()], [{"k": 1}] * 34)]
    for fs, ts in big_pairs:
        ys, info = run_construct(fs, ts, rounds=2, seconds=60)
        total_yields += len(ys)
        n += check_run(fs, ts, ys, info, fails, "rounds 0-1, large example sets")
    # into round 2 (263,536 candidates, built in one go by the implementation): the complete round for a few pairs
    # that yield something there, every yield checked
    deep_pairs = [pr for pr in pairs if pr[0] or pr[1]]
    rng.shuffle(deep_pairs)
    budget = 40 if deep else 7
    r2_yields = 0
    for fs, ts in deep_pairs:
        if budget == 0 or len(fails) >= 12:
            break
        ys01, _ = run_construct(fs, ts, rounds=2, seconds=30)
        if not ys01 and rng.random() < 0.8:       # mostly spend the budget where round 2 can yield
            continue
        budget -= 1
        ys, info = run_construct(fs, ts, rounds=3, max_yields=6000, seconds=60)
        if info["stopped_by"] == "alarm":
            continue
        r2 = sum(1 for r, _, _ in ys if r == 2)
        r2_yields += r2
        total_yields += r2
        n += check_run(fs, ts, ys, info, fails, "rounds 0-2")
        if len(samples) < 3 and r2:
            last = ys[-1]
            samples.append({"false_set": repr(fs), "true_set": repr(ts), "yields_checked": len(ys), "round2_yields": r2,
                            "last": repr(last[2]), "candidates_examined": info["candidates_examined"]})
    # HISTORY in this one process: a few example pairs asked again and again in changing orders, streams abandoned after 1, 3 or 20 values
    # (what is remembered from one request must not answer the next), and pairs whose members are == across types (2 / 2.0, 1 / True)
    hpairs = [(["a", None], [1, 2]), ([1, 2.5], ["x", "y"]), (["a", 2], [0.5, 2.0]), ([None, 7.0, "x"], [7, 3]), ([1, "a"], [True, False]), ([0.0], [0]), ([], [1]), (["b"], [None])]
    seq = [0, 1, 0, 1, 1, 2, 3, 2, 0, 4, 5, 4, 1, 0, 6, 7, 6, 1, 1, 0]
    for step, i in enumerate(seq):
        fs, ts = hpairs[i]
        cut = (20, 1, 3, None)[step % 4]
        ys, info = run_construct(list(fs), list(ts), rounds=2, max_yields=cut, seconds=30)
        total_yields += len(ys)
        before = len(fails)
        n += check_run(fs, ts, ys, info, fails, f"rounds 0-1, request {step + 1} of a sequence of {len(seq)} requests in one process (the stream is abandoned after {cut} values)")
        if len(fails) > before:
            fails[-1]["history"] = "requests made before in this process: " + "; ".join(f"construct({hpairs[j][0]!r}, {hpairs[j][1]!r})" for j in seq[max(0, step - 4):step])
            break
    # example sets given as OTHER finite re-iterable collections (range, deque, dict views, generators are not re-iterable and not used), and an
    # example whose truth value cannot be taken (bool(x) raises TypeError): whatever is yielded must separate the sets
    import collections as _col

    class NoTruthValue:
        def __bool__(self):
            raise TypeError("no truth value")

        def __repr__(self):
            return "NoTruthValue()"
    odd = [(range(0, 3), ["a", "b"]), (["a", "b"], range(0, 3)), (_col.deque([0, 5]), ["a"]), ({0: 1, 2: 3}.keys(), ["a", ""]), ({"k": 0, "l": 2}.values(), [None]), ((0, 0.0), _col.deque(["x"])),
           (frozenset({0, 1}), range(5, 7)), ([NoTruthValue()], [1, "a"]), ([NoTruthValue(), None], [1, 2]), ([0], [NoTruthValue()])]
    for fs_, ts_ in odd:
        ys, info = run_construct(fs_, ts_, rounds=2, max_yields=60, seconds=30)
        total_yields += len(ys)
        n += check_run(list(fs_), list(ts_), ys, info, fails, f"rounds 0-1, example sets given as {type(fs_).__name__} / {type(ts_).__name__}")
    # members that are == ACROSS TYPES inside ONE example set (1 / 1.0 / True, 0 / 0.0 / False, in both orders): every one of them is an example of
    # its own - a run that folds them together (deduplication by ==, a set/dict of examples) checks only the first of each group
    twins = [(["a"], [1, 1.0]), (["a"], [1.0, 1]), ([0, 0.0, "x"], [None]), ([0.0, 0, "x"], [None]), ([None], [True, 1]), ([None], [1, True]), (["s"], [0, False]),
             (["s"], [False, 0]), ([1, 1.0], ["a"]), ([1.0, 1], [None]), ([False, 0.0], [[]]), ([0.0, False], [[]]), ([2, 2.0, None], ["a", "b"]), ([[]], [1, 1.0, True]),
             ([[]], [True, 1.0, 1]), ([1, 1.0], [2, 2.0]), (["x", 3.0], [3, "y"]), ([{1}, frozenset({1})], [1]), ([1], [{1}, frozenset({1})])]
    for fs, ts in twins:
        for rounds, cut in ((2, None), (3, 400)):
            ys, info = run_construct(list(fs), list(ts), rounds=rounds, max_yields=cut, seconds=60)
            if info["stopped_by"] == "alarm":
                continue
            total_yields += len(ys)
            before = len(fails)
            n += check_run(fs, ts, ys, info, fails, f"rounds 0-{rounds - 1}, members equal across types inside one example set")
            if len(fails) > before:
                break
    fails.sort(key=lambda f: (f["false_set"] == "[]") + (f["true_set"] == "[]"))     # prefer witnesses with two non-empty sets
    return {"evaluations": n, "failures": fails[:5], "known_hits": [], "set_pairs": len(pairs), "yields_checked": total_yields,
            "round2_yields_checked": r2_yields, "samples": samples}


def replay(payload):
    inp = payload["replay"].get("input") or {}
    try:
        fs, ts = eval(inp["false_set"], {"datetime": datetime, "UUID": uuid.UUID, "inf": float("inf"), "nan": float("nan")}), \
                 eval(inp["true_set"], {"datetime": datetime, "UUID": uuid.UUID, "inf": float("inf"), "nan": float("nan")})
    except Exception as e:  # noqa: BLE001
        return {"fails": True, "note": f"could not rebuild the sets from their repr ({e}); re-run ./check C19", "input": inp}
    fails = []
    ys, info = run_construct(fs, ts, rounds=3 if inp.get("run") == "rounds 0-2" else 2, max_yields=6000, seconds=60)
    check_run(fs, ts, ys, info, fails, inp.get("run", "rounds 0-1"))
    return {"fails": bool(fails), "input": inp, "now": fails[:1]}


main({"correspondence": correspondence, "search": search, "replay": replay, "fingerprint": write_fingerprint})
