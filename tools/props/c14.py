"""C14 — parse_expression accepts exactly the expression language and reads it faithfully.

The Coq model (coq/Lemmas/Parser{Lang,Groups,Valid}.v) is HAND-WRITTEN: derivations of the Lark grammar, the tree
transformer, the language, and a verified validator `reads_ok`.  Which derivation Lark's Earley resolver returns for an
ambiguous text cannot be a theorem about the repo; it is decided here, on every run, by evaluating the validator
(vm_compute) on the implementation's ACTUAL output.

correspondence: (0) source fingerprint of predicate/parser.py and NamedPredicate against tools/props/fingerprints/c14.json;
                (A) accept/reject: the model's `lang_positions` (all token strings over an 11-token alphabet up to a
                    length bound, in itertools.product order) against "parse_expression returns a predicate";
                (B) the model's `reads_code ts p` on the implementation's output p for every string of the language up
                    to a (larger) length bound, for random longer ones, for fully parenthesised renderings of random
                    trees and for random CHARACTER strings tokenised by the harness (lexing: WORD=[A-Za-z]+, spaces
                    ignored, keywords true/false exact);
                (C) strings outside the language (all short ones, one-token mutants of longer ones): model says
                    `in_lang = false`, implementation must return None or raise a Lark parse error;
                (D) spacing variants give the same result as the single-spaced text.
search:         the property's clauses on the implementation alone, with an independent plain-Python oracle
                (own recogniser, own precedence-climbing reference, truth tables as bit masks).
"""
import ast
import difflib
import hashlib
import itertools
import json
import os
import re
from functools import lru_cache

from common import chunks, main, rng_of, vlib

HERE = os.path.dirname(os.path.abspath(__file__))
FP_PATH = os.path.join(HERE, "fingerprints", "c14.json")

IMPORT_ERROR = None
try:
    import lark
    from lark.exceptions import LarkError, VisitError
    from predicate.parser import parse_expression
    from predicate.predicate import (AlwaysFalsePredicate, AlwaysTruePredicate, AndPredicate, NotPredicate, OrPredicate,
                                     XorPredicate)
    from predicate.named_predicate import NamedPredicate
except Exception as e:  # noqa: BLE001   (a mutated grammar may not even load)
    IMPORT_ERROR = f"{type(e).__name__}: {e}"

NAMES = ["p", "q", "foo"]
ATOMS = NAMES + ["true", "false"]
ALPHABET = ATOMS + ["~", "&", "|", "^", "(", ")"]
OPS = "&|^"
COQ_TOK = {"true": "TTrue", "false": "TFalse", "~": "TNot", "&": "TAnd", "|": "TOr", "^": "TXor", "(": "TLParen", ")": "TRParen"}
CODES = {1: "the result is not the transformer's image of ANY derivation of the text (atoms/operators/names/groups differ)",
         2: "the result is only the image of derivations in which a ~ applies to an unparenthesised binary expression",
         3: "the result's truth table differs from every reading in which ~ binds tightest and &,^ bind tighter than |"}


# ------------------------------------------------------------------------------------------------------------------
# running the implementation

def is_word(t):
    return t not in COQ_TOK or t in ("true", "false")


def render(ts, style="single", rng=None):
    """text of a token list; two adjacent words always get a space (otherwise they would be one name)"""
    if style == "single":
        return " ".join(ts)
    out = []
    for i, t in enumerate(ts):
        if i:
            need = is_word(ts[i - 1]) and is_word(t)
            if style == "tight":
                out.append(" " if need else "")
            else:
                out.append(" " * rng.randint(1 if need else 0, 3))
        out.append(t)
    s = "".join(out)
    if style == "wide":
        s = " " * rng.randint(0, 2) + s + " " * rng.randint(0, 2)
    return s


def lift(p):
    """strict, order-sensitive plain AST of a returned predicate (exact classes, exact names)"""
    T = type(p)
    if T is AndPredicate:
        return ("&", lift(p.left), lift(p.right))
    if T is OrPredicate:
        return ("|", lift(p.left), lift(p.right))
    if T is XorPredicate:
        return ("^", lift(p.left), lift(p.right))
    if T is NotPredicate:
        return ("~", lift(p.predicate))
    if T is NamedPredicate and type(p.name) is str:
        return ("N", p.name)
    if T is AlwaysTruePredicate:
        return ("T",)
    if T is AlwaysFalsePredicate:
        return ("F",)
    return ("?", repr(p)[:80])


@lru_cache(None)
def run_impl(text):
    """('pred', ast) | ('none',) | ('parse_error', class) | ('crash', class, message)"""
    try:
        r = parse_expression(text)
    except RecursionError:
        return ("crash", "RecursionError", "")
    except Exception as e:  # noqa: BLE001
        if isinstance(e, LarkError) and not isinstance(e, VisitError):
            return ("parse_error", type(e).__name__)
        return ("crash", type(e).__name__, str(e)[:200].replace("\n", " "))
    if r is None:
        return ("none",)
    return ("pred", lift(r))


def show_ast(a):
    k = a[0]
    if k == "N":
        return a[1] if a[1] not in ("true", "false") else "<variable named " + a[1] + ">"
    if k == "T":
        return "true"
    if k == "F":
        return "false"
    if k == "~":
        return "~" + show_ast(a[1])
    if k == "?":
        return "<" + a[1] + ">"
    return "(" + show_ast(a[1]) + " " + k + " " + show_ast(a[2]) + ")"


def ast_names(a):
    return {a[1]} if a[0] == "N" else set().union(*[ast_names(c) for c in a[1:] if isinstance(c, tuple)]) if len(a) > 1 else set()


def has_unknown(a):
    return a[0] == "?" or any(has_unknown(c) for c in a[1:] if isinstance(c, tuple))


# ------------------------------------------------------------------------------------------------------------------
# the harness's lexer (SPECIFICATION of lexing; not in the Coq model)

def tokenize(text):
    """None when the text contains a character outside letters, space, ~&|^(); maximal letter runs are words"""
    out, i = [], 0
    while i < len(text):
        c = text[i]
        if c == " ":
            i += 1
        elif c in "~&|^()":
            out.append(c)
            i += 1
        elif c.isascii() and c.isalpha():
            j = i
            while j < len(text) and text[j].isascii() and text[j].isalpha():
                j += 1
            out.append(text[i:j])
            i = j
        else:
            return None
    return out


# ------------------------------------------------------------------------------------------------------------------
# enumeration of the language (harness side; cross-checked against the model's lang_positions)

@lru_cache(None)
def operands(n):
    out = []
    if n == 1:
        out += [(a,) for a in ATOMS]
    if n >= 2:
        out += [("~",) + o for o in operands(n - 1)]
    if n >= 3:
        out += [("(",) + e + (")",) for e in exprs(n - 2)]
    return out


@lru_cache(None)
def exprs(n):
    out = list(operands(n))
    for k in range(1, n - 1):
        for a in exprs(k):
            for o in OPS:
                for b in operands(n - k - 1):
                    out.append(a + (o,) + b)
    return out


def rand_tree(rng, size, names):
    if size <= 1:
        r = rng.random()
        return ("N", rng.choice(names)) if r < 0.7 else (("T",) if r < 0.85 else ("F",))
    if rng.random() < 0.25:
        return ("~", rand_tree(rng, size - 1, names))
    k = rng.randint(1, size - 1)
    return (rng.choice(OPS), rand_tree(rng, k, names), rand_tree(rng, size - k, names))


@lru_cache(None)
def all_trees(nodes):
    """every tree with exactly `nodes` nodes over the leaves p, foo, true"""
    if nodes == 1:
        return [("N", "p"), ("N", "foo"), ("T",)]
    out = [("~", t) for t in all_trees(nodes - 1)]
    for k in range(1, nodes - 1):
        for l in all_trees(k):
            for r in all_trees(nodes - 1 - k):
                out += [(o, l, r) for o in OPS]
    return out


def tokens_of_tree(a, rng, paren=0.35, top=True):
    """an (ambiguous in general) token rendering of a tree: random redundant or missing parentheses"""
    k = a[0]
    if k == "N":
        ts = [a[1]]
    elif k == "T":
        ts = ["true"]
    elif k == "F":
        ts = ["false"]
    elif k == "~":
        ts = ["~"] + tokens_of_tree(a[1], rng, paren, False)
    else:
        ts = tokens_of_tree(a[1], rng, paren, False) + [k] + tokens_of_tree(a[2], rng, paren, False)
    if rng.random() < (paren if not top else paren / 3):
        ts = ["("] + ts + [")"]
    return ts


def full_paren(a):
    """the model's `show`: every ~ and every binary operator in its own parentheses"""
    k = a[0]
    if k == "N":
        return [a[1]]
    if k == "T":
        return ["true"]
    if k == "F":
        return ["false"]
    if k == "~":
        return ["(", "~"] + full_paren(a[1]) + [")"]
    return ["("] + full_paren(a[1]) + [k] + full_paren(a[2]) + [")"]


def mutants(ts, rng, alphabet):
    """one-token edits of a token string"""
    ts = list(ts)
    r = rng.random()
    i = rng.randrange(len(ts) + 1)
    if r < 0.35 and ts:
        i = min(i, len(ts) - 1)
        return ts[:i] + ts[i + 1:]
    if r < 0.7:
        return ts[:i] + [rng.choice(alphabet)] + ts[i:]
    if ts:
        i = min(i, len(ts) - 1)
        return ts[:i] + [rng.choice(alphabet)] + ts[i + 1:]
    return ts


# ------------------------------------------------------------------------------------------------------------------
# Coq side

def coq_str(s):
    return '"' + s.replace('"', '""') + '"'


def coq_tok(t):
    return COQ_TOK.get(t) or f"(TName {coq_str(t)})"


def coq_toks(ts):
    return "[" + "; ".join(coq_tok(t) for t in ts) + "]"


def coq_pred(a):
    k = a[0]
    if k == "N":
        return f"(PNamed {coq_str(a[1])})"
    if k == "T":
        return "PTrue"
    if k == "F":
        return "PFalse"
    if k == "~":
        return f"(PNot {coq_pred(a[1])})"
    if k == "?":
        return "PIsNone"   # anything outside the propositional fragment: the validator answers 1
    return "(" + {"&": "PAnd", "|": "POr", "^": "PXor"}[k] + f" {coq_pred(a[1])} {coq_pred(a[2])})"


HEADER = """From Coq Require Import Bool List String Arith NArith.
From PP Require Import Prelude.Base Prelude.Val Prelude.Pred Lemmas.ParserLang Lemmas.ParserValid.
Import ListNotations.
Close Scope Q_scope.
Open Scope list_scope.
Open Scope string_scope.
"""

NATLIST = re.compile(r"=\s*\[([\s\S]*?)\]\s*:\s*list (?:nat|N)\b")


def nat_lists(out):
    res = []
    for m in NATLIST.finditer(out):
        body = m.group(1).strip()
        res.append([int(x.replace("%nat", "").replace("%N", "")) for x in re.split(r"[;\s]+", body) if x] if body else [])
    return res


def model_positions(max_n):
    text = HEADER + "Definition A := " + coq_toks(ALPHABET) + ".\n" + "".join(
        f"Eval vm_compute in lang_positions A {n}.\n" for n in range(max_n + 1))
    res = nat_lists(vlib.coq_eval("c14pos", text))
    if len(res) != max_n + 1:
        raise vlib.Broken("correspondence", f"c14pos: expected {max_n + 1} lists, got {len(res)}")
    return [set(r) for r in res]


def model_codes(name, items, run_def, chunk=2500):
    """items: Coq terms of the case type; returns the nat codes of `run`"""
    out = []
    for part in chunks(items, chunk):
        text = (HEADER + run_def + "\nDefinition cases := [\n" + ";\n".join(part) + "].\nEval vm_compute in map run cases.\n")
        res = nat_lists(vlib.coq_eval(name, text))
        if len(res) != 1 or len(res[0]) != len(part):
            raise vlib.Broken("correspondence", f"{name}: expected {len(part)} results, got {[len(r) for r in res]}")
        out += res[0]
    return out


RUN_READS = ("Definition run (c : list token * pred) : nat := reads_code (fst c) (snd c) + "
             "10 * Nat.min 1 (Nat.pred (List.length (readings (fst c)))).")
RUN_LANG = "Definition run (ts : list token) : nat := if in_lang ts then 1 else 0."


# ------------------------------------------------------------------------------------------------------------------
# fingerprint

def current_fingerprint():
    fp = {}
    src = open(os.path.join(vlib.REPO, "predicate", "parser.py"), encoding="utf-8").read()
    fp["predicate/parser.py"] = ast.unparse(ast.parse(src)).replace("\\n", "\n")   # grammar string: one line per rule
    src2 = open(os.path.join(vlib.REPO, "predicate", "named_predicate.py"), encoding="utf-8").read()
    cls = [n for n in ast.parse(src2).body if isinstance(n, ast.ClassDef) and n.name == "NamedPredicate"]
    fp["predicate/named_predicate.py:NamedPredicate"] = ast.unparse(cls[0]) if cls else "<class NamedPredicate not found>"
    return fp


def fingerprint_mismatches():
    try:
        stored = json.load(open(FP_PATH))["sources"]
    except Exception as e:  # noqa: BLE001
        return [{"case": "fingerprint", "error": f"cannot read {FP_PATH}: {e}"}]
    cur = current_fingerprint()
    mism = []
    for k, v in cur.items():
        if stored.get(k) != v:
            diff = list(difflib.unified_diff((stored.get(k) or "").splitlines(), v.splitlines(), "modelled", "current", lineterm="", n=1))
            mism.append({"case": "fingerprint", "source": k,
                         "note": "the hand-written Coq model (Lemmas/ParserLang.v) was written against another text",
                         "diff": "\n".join(diff)[:1500]})
    return mism


def write_fingerprint(_payload):
    cur = current_fingerprint()
    os.makedirs(os.path.dirname(FP_PATH), exist_ok=True)
    json.dump({"sources": cur, "sha256": {k: hashlib.sha256(v.encode()).hexdigest() for k, v in cur.items()},
               "lark_version_when_written": lark.__version__}, open(FP_PATH, "w"), indent=1)
    return {"written": FP_PATH}


# ------------------------------------------------------------------------------------------------------------------
# correspondence

def bounds(tier, deep=False):
    if tier == "thorough":
        return {"ex": 5, "lang": 7, "long": 1500, "mut": 6000, "chars": 6000, "fp": 600, "space_every": 2}
    return {"ex": 4, "lang": 6, "long": 250, "mut": 1500, "chars": 1500, "fp": 150, "space_every": 5}


def correspondence(payload):
    if IMPORT_ERROR:
        return {"evaluations": 0, "distinct_nontrivial": 0, "rule": "predicate.parser could not be imported", "samples": [],
                "mismatches": fingerprint_mismatches() + [{"case": "import", "error": IMPORT_ERROR}]}
    rng = rng_of(payload)
    B = bounds(payload["tier"])
    mism = fingerprint_mismatches()
    n_eval = 0
    samples = []

    # (A) accept / reject on ALL token strings up to B["ex"]
    pos = model_positions(B["ex"])
    impl_cache = {}
    for n in range(B["ex"] + 1):
        harness = {i for i, ts in enumerate(itertools.product(ALPHABET, repeat=n)) if n and ts in set_exprs(n)}
        if harness != pos[n]:
            mism.append({"case": "harness enumeration of the language differs from the model's in_lang", "length": n,
                         "only_model": sorted(pos[n] - harness)[:5], "only_harness": sorted(harness - pos[n])[:5]})
        for i, ts in enumerate(itertools.product(ALPHABET, repeat=n)):
            text = render(ts)
            r = run_impl(text)
            impl_cache[ts] = r
            n_eval += 1
            in_model = i in pos[n]
            if in_model != (r[0] == "pred") or r[0] == "crash":
                mism.append({"case": "accept/reject", "tokens": list(ts), "text": text, "model_in_language": in_model, "impl": list(r[:2])})
    n_reject_checked = sum(len(list(itertools.product(ALPHABET, repeat=n))) for n in range(B["ex"] + 1)) - sum(len(p) for p in pos)

    # (B) the validator on the implementation's output
    cases = []   # (tokens, text, result)
    for n in range(1, B["lang"] + 1):
        for ts in exprs(n):
            r = impl_cache.get(ts) or run_impl(render(ts))
            cases.append((ts, render(ts), r, "language<=%d" % B["lang"]))
    names_pool = NAMES + ["r", "bar", "truex", "xfalse", "TRUE", "False", "t", "tru", "falsetrue", "Foo", "zzzzzzzzzzzz"]
    for _ in range(B["long"]):
        tr = rand_tree(rng, rng.randint(4, 8), names_pool)
        ts = tuple(tokens_of_tree(tr, rng))
        if len(ts) <= 17:
            cases.append((ts, render(ts), run_impl(render(ts)), "random longer"))
    for _ in range(B["fp"]):
        tr = rand_tree(rng, rng.randint(1, 5), names_pool)
        ts = tuple(full_paren(tr))
        cases.append((ts, render(ts), run_impl(render(ts)), "fully parenthesised"))
    # random character strings: lexing (names vs keywords, spaces) is the harness's `tokenize`
    CH = "pqtruefalsTF ~&|^()  "
    rejects = []  # (tokens-or-None, text, result)
    for _ in range(B["chars"]):
        text = "".join(rng.choice(CH) for _ in range(rng.randint(1, 12)))
        if rng.random() < 0.1:
            k = rng.randrange(len(text) + 1)
            text = text[:k] + rng.choice("1_\t\n.!-+=<>,*") + text[k:]
        ts = tokenize(text)
        r = run_impl(text)
        if ts is None:
            n_eval += 1
            if r[0] == "pred" or r[0] == "crash":
                mism.append({"case": "character outside the alphabet accepted", "text": text, "impl": list(r[:2])})
            continue
        ts = tuple(ts)
        if len(ts) > 14:
            continue
        if is_lang(ts):
            cases.append((ts, text, r, "random characters"))
        else:
            rejects.append((ts, text, r))
    # (C) mutants of language strings
    long_pool = [c[0] for c in cases if len(c[0]) >= 4]
    for _ in range(B["mut"]):
        ts = tuple(mutants(rng.choice(long_pool), rng, ALPHABET))
        text = render(ts)
        r = run_impl(text)
        if is_lang(ts):
            cases.append((ts, text, r, "mutant"))
        else:
            rejects.append((ts, text, r))

    items, kept = [], []
    for ts, text, r, origin in cases:
        if r[0] != "pred":
            mism.append({"case": "a string of the language is rejected", "tokens": list(ts), "text": text, "impl": list(r), "origin": origin})
            continue
        items.append(f"({coq_toks(ts)}, {coq_pred(r[1])})")
        kept.append((ts, text, r[1], origin))
    codes = model_codes("c14reads", items, RUN_READS)
    ambiguous = set()
    for (ts, text, a, origin), c in zip(kept, codes):
        n_eval += 1
        if c >= 10:
            ambiguous.add(ts)
        if c % 10 != 0:
            mism.append({"case": "validator reads_ok rejects the implementation's reading", "tokens": list(ts), "text": text,
                         "impl": show_ast(a), "code": c % 10, "meaning": CODES.get(c % 10, "?"),
                         "reference_reading": show_ast(ref_parse(list(ts))), "origin": origin})
    # model's verdict on the rejected strings
    rej_items = [coq_toks(ts) for ts, _, _ in rejects]
    rej_codes = model_codes("c14rej", rej_items, RUN_LANG) if rej_items else []
    for (ts, text, r), c in zip(rejects, rej_codes):
        n_eval += 1
        if c != 0:
            mism.append({"case": "harness recogniser differs from the model's in_lang", "tokens": list(ts)})
        if r[0] == "pred" or r[0] == "crash":
            mism.append({"case": "accept/reject", "tokens": list(ts), "text": text, "model_in_language": False,
                         "impl": [r[0], show_ast(r[1]) if r[0] == "pred" else r[1]]})

    # (D) spacing variants
    n_space = 0
    for i, (ts, text, a, origin) in enumerate(kept):
        if i % B["space_every"] or origin == "random characters":
            continue
        for style in ("tight", "wide"):
            t2 = render(ts, style, rng)
            r2 = run_impl(t2)
            n_space += 1
            if r2 != ("pred", a):
                mism.append({"case": "spacing changes the result", "text": text, "variant": t2, "impl": show_ast(a),
                             "impl_variant": show_ast(r2[1]) if r2[0] == "pred" else list(r2)})
    n_eval += n_space
    seen_origin = {}
    for i in range(len(kept) - 1, -1, -1):      # one sample per origin, the longest-running cases last
        seen_origin.setdefault(kept[i][3], i)
    samples = [{"text": kept[i][1], "origin": kept[i][3], "impl": show_ast(kept[i][2]), "reads_code": codes[i] % 10,
                "more_than_one_derivation": codes[i] >= 10} for i in sorted(seen_origin.values())]
    if rejects:
        samples.append({"text": rejects[len(rejects) // 2][1], "impl": list(rejects[len(rejects) // 2][2]), "model_in_language": False})
    return {"evaluations": n_eval, "distinct_nontrivial": len(ambiguous),
            "rule": f"all {len(ALPHABET)}-token-alphabet strings of length <= {B['ex']} (accept/reject vs the model's in_lang, exhaustive); "
                    f"every string of the language of length <= {B['lang']}, random longer texts with redundant/missing parentheses and "
                    "keyword-like multi-letter names, fully parenthesised renderings, random character strings (harness lexer): the "
                    "verified validator reads_code evaluated by vm_compute on the implementation's actual output; one-token mutants "
                    "outside the language must be rejected; spacing variants must not change the result. "
                    "distinct_nontrivial = distinct validated token strings with MORE THAN ONE derivation (counted by the model's `readings`)",
            "samples": samples, "validated_readings": len(kept), "rejections_checked": n_reject_checked + len(rejects),
            "spacing_variants": n_space, "lark_version": lark.__version__, "mismatches": mism[:40]}


@lru_cache(None)
def set_exprs(n):
    return frozenset(exprs(n))


# ------------------------------------------------------------------------------------------------------------------
# the independent oracle of the search (plain Python, nothing shared with the Coq model)

def is_lang(ts):
    """recursive-descent recogniser: expr := operand (binop operand)* ; operand := atom | ~ operand | ( expr )"""
    n = len(ts)

    def operand(i):
        if i >= n:
            return None
        t = ts[i]
        if t == "~":
            return operand(i + 1)
        if t == "(":
            j = expr(i + 1)
            return j + 1 if j is not None and j < n and ts[j] == ")" else None
        if t in COQ_TOK and t not in ("true", "false"):
            return None
        return i + 1 if re.fullmatch(r"[A-Za-z]+", t) else None

    def expr(i):
        j = operand(i)
        while j is not None and j < n and ts[j] in OPS:
            j = operand(j + 1)
        return j
    return expr(0) == n


def ref_parse(ts, order=("|", "&", "^")):
    """precedence climbing, left associative, ~ tightest; groups are kept as ('G', e)"""
    pos = [0]

    def operand():
        t = ts[pos[0]]
        pos[0] += 1
        if t == "~":
            return ("~", operand())
        if t == "(":
            e = level(0)
            pos[0] += 1
            return e
        return ("T",) if t == "true" else ("F",) if t == "false" else ("N", t)

    def level(i):
        if i == len(order):
            return operand()
        l = level(i + 1)
        while pos[0] < len(ts) and ts[pos[0]] in order[i]:
            op = ts[pos[0]]
            pos[0] += 1
            l = (op, l, level(i + 1))
        return l
    return level(0)


def table(a, names):
    """truth table as a bit mask over all assignments of `names`"""
    n = len(names)
    full = (1 << (1 << n)) - 1

    def go(a):
        k = a[0]
        if k == "N":
            i = names.index(a[1])
            return sum(1 << row for row in range(1 << n) if (row >> i) & 1)
        if k == "T":
            return full
        if k == "F":
            return 0
        if k == "~":
            return full & ~go(a[1])
        x, y = go(a[1]), go(a[2])
        return x & y if k == "&" else x | y if k == "|" else x ^ y
    return go(a)


def admissible_tables(ts, names):
    """truth tables of ALL readings of ts in which ~ applies to the next operand and &,^ bind tighter than |
    (every bracketing of a |-free chain of & and ^ is allowed: the property does not rank & against ^)"""
    n = len(names)
    full = (1 << (1 << n)) - 1
    pos = [0]

    def operand():
        t = ts[pos[0]]
        pos[0] += 1
        if t == "~":
            return {full & ~x for x in operand()}
        if t == "(":
            s = expr()
            pos[0] += 1
            return s
        if t == "true":
            return {full}
        if t == "false":
            return {0}
        return {table(("N", t), names)}

    def chain():
        items, ops = [operand()], []
        while pos[0] < len(ts) and ts[pos[0]] in "&^":
            ops.append(ts[pos[0]])
            pos[0] += 1
            items.append(operand())
        m = len(items)
        best = {(i, i): items[i] for i in range(m)}
        for width in range(1, m):
            for i in range(m - width):
                j = i + width
                s = set()
                for k in range(i, j):
                    for x in best[(i, k)]:
                        for y in best[(k + 1, j)]:
                            s.add(x & y if ops[k] == "&" else x ^ y)
                best[(i, j)] = s
        return best[(0, m - 1)]

    def expr():
        acc = chain()
        while pos[0] < len(ts) and ts[pos[0]] == "|":
            pos[0] += 1
            nxt = chain()
            acc = {x | y for x in acc for y in nxt}
        return acc
    return expr()


def inorder(a):
    k = a[0]
    if k == "N":
        return [a[1]]
    if k == "T":
        return ["true"]
    if k == "F":
        return ["false"]
    if k == "~":
        return ["~"] + inorder(a[1])
    return inorder(a[1]) + [k] + inorder(a[2])


def spans(a, start=0):
    """(list of (start, end, node)) over in-order positions, for every node; returns (end, list)"""
    k = a[0]
    if k in ("N", "T", "F"):
        return start + 1, [(start, start + 1, a)]
    if k == "~":
        e, l = spans(a[1], start + 1)
        return e, [(start, e, a)] + l
    e1, l1 = spans(a[1], start)
    e2, l2 = spans(a[2], e1 + 1)
    return e2, [(start, e2, a)] + l1 + l2


def check_reading(ts, a):
    """the property's clauses for an accepted text; returns the name of the violated clause or None"""
    if has_unknown(a):
        return "the result contains something that is not a variable, constant, &, |, ^ or ~"
    stripped = [t for t in ts if t not in "()"]
    if inorder(a) != stripped:
        return "variables, constants and operators are not in the order of the text (or a name changed)"
    # positions of the text's tokens in the parenthesis-free sequence
    idx, k = [], 0
    for t in ts:
        idx.append(k)
        if t not in "()":
            k += 1
    _, nodes = spans(a)
    node_spans = {(s, e) for s, e, _ in nodes}
    # every parenthesised group is a sub-tree
    stack = []
    match = {}
    for i, t in enumerate(ts):
        if t == "(":
            stack.append(i)
        elif t == ")":
            j = stack.pop()
            match[j] = i
            if (idx[j], idx[i]) not in node_spans:
                return "a parenthesised group of the text is not a sub-tree of the result"
    # ~ applies to the operand that follows it
    not_nodes = {s: e for s, e, nd in nodes if nd[0] == "~"}

    def operand_end(i):   # token index just after the operand starting at i
        if ts[i] == "~":
            return operand_end(i + 1)
        if ts[i] == "(":
            return match[i] + 1
        return i + 1
    for i, t in enumerate(ts):
        if t == "~":
            j = operand_end(i)
            end = idx[j] if j < len(ts) else len(stripped)
            if not_nodes.get(idx[i]) != end:
                return "a ~ does not apply to exactly the operand that follows it"
    # precedence: truth table of a reading in which & and ^ bind tighter than |
    names = sorted({t for t in stripped if t not in COQ_TOK})
    if len(names) <= 4:
        if table(a, names) not in admissible_tables(list(ts), names):
            return "truth table differs from the reading in which & and ^ bind tighter than |"
    return None


def tt_rows(a, names):
    rows = []
    for bits in itertools.product([False, True], repeat=len(names)):
        env = dict(zip(names, bits))

        def ev(a):
            k = a[0]
            return (env[a[1]] if k == "N" else True if k == "T" else False if k == "F" else (not ev(a[1])) if k == "~"
                    else (ev(a[1]) and ev(a[2])) if k == "&" else (ev(a[1]) or ev(a[2])) if k == "|" else (ev(a[1]) != ev(a[2])))
        rows.append("".join("1" if b else "0" for b in bits) + "->" + ("1" if ev(a) else "0"))
    return rows


def judge(ts, text):
    """run the implementation on `text` (whose specified tokenisation is ts, or None) and judge it against the property"""
    r = run_impl(text)
    lang = ts is not None and is_lang(ts)
    if r[0] == "crash":
        return {"text": text, "tokens": ts, "in_language": lang,
                "violation": "neither a predicate, nor None, nor a parse error: raises " + r[1] + " " + r[2]}
    if not lang:
        if r[0] == "pred":
            return {"text": text, "tokens": ts, "in_language": False, "violation": "a text outside the language is accepted",
                    "returned": show_ast(r[1])}
        return None
    if r[0] != "pred":
        return {"text": text, "tokens": ts, "in_language": True, "violation": "a text of the language is rejected", "impl": list(r)}
    bad = check_reading(list(ts), r[1])
    if bad:
        out = {"text": text, "tokens": list(ts), "in_language": True, "violation": bad, "returned": show_ast(r[1]),
               "precedence_reading": show_ast(ref_parse(list(ts)))}
        names = sorted({t for t in ts if t not in COQ_TOK})
        if not has_unknown(r[1]) and len(names) <= 3 and ast_names(r[1]) <= set(names):
            out["truth_table_returned(" + ",".join(names) + ")"] = tt_rows(r[1], names)
            out["truth_table_precedence_reading"] = tt_rows(ref_parse(list(ts)), names)
        return out
    return None


class Enough(Exception):
    pass


def search(payload):
    if IMPORT_ERROR:
        return {"evaluations": 1, "failures": [{"text": "(any)", "violation": "predicate.parser cannot be imported: " + IMPORT_ERROR}],
                "known_hits": [], "samples": []}
    rng = rng_of(payload)
    deep = bool(payload.get("deep")) or payload.get("tier") == "thorough"
    ex, lang_n, n_long, n_mut, n_chars = (5, 7, 1500, 6000, 6000) if deep else (4, 5, 300, 1500, 2000)
    fails, n = [], 0
    samples = []

    def consider(ts, text):
        nonlocal n
        n += 1
        f = judge(ts, text)
        if f:
            fails.append(f)
            if len(fails) >= 8:
                raise Enough
        return f

    try:
        _search_phases(rng, deep, ex, lang_n, n_long, n_mut, n_chars, consider, fails, samples)
    except Enough:
        pass
    return {"evaluations": n, "failures": fails[:8], "known_hits": [], "samples": samples or [{"text": fails[0].get("text")}]}


def _long_inputs(consider):
    """texts beyond every small bound: long flat chains (also with one malformed piece), runs of 33-48 operands, names that start like the
    keywords, long names"""
    names = ["alpha", "beta", "gamma", "delta", "eps", "zeta", "eta", "theta", "iota", "kappa", "mu", "nu", "xi", "omicron", "rho", "sigma"]
    for op in ("|", "&", "^"):
        for k in (12, 16):
            ts = []
            for i in range(k):
                ts += ([op] if i else []) + [names[i % len(names)] + ("x" * (i // len(names)))]
            consider(ts, " ".join(ts))
            for bad_at in (6, k - 1):
                bad = list(ts)
                bad.insert(2 * bad_at, op)                       # a doubled operator
                consider(bad, " ".join(bad))
            consider(ts + [op], " ".join(ts + [op]))           # trailing operator
            consider(ts[:8] + ["~", op] + ts[9:], " ".join(ts[:8] + ["~", op] + ts[9:]))     # a lone ~ piece
    for op in ("|", "&", "^"):
        for k in (33, 34, 40, 48):
            ts = []
            for i in range(k):
                ts += ([op] if i else []) + ["v" + "abcdefghijklmnopqrstuvwxyz"[i % 26] + "abcdefghijklmnopqrstuvwxyz"[i // 26]]
            consider(ts, " ".join(ts))
    for text in ("trueish", "falsePositive & alarm", "~truex | y", "truefalse", "falsey ^ truthy", "trueTRUE | FALSEfalse", "untrue & isfalse"):
        consider(tokenize(text), text)
    # characters that only LOOK like the language's (no-break space, full-width letters and operators, ligatures, superscript letters): outside
    # the language, and capitalised spellings of the constants, which are ordinary variable names
    for text in ("a\u00a0&\u00a0b", "\uff41 & b", "a \uff06 b", "\u00aa", "\ufb01x ^ y", "p\u2003|\u2003q", "\uff5e p", "p \uff5c q", "\u00e9", "gr\u00f6\u00dfe | p", "\u03bb", "p\t& q", "p\n| q"):
        consider(tokenize(text), text)
    for text in ("True", "FALSE", "~False | True & x", "TRUE ^ true", "False", "tRuE & fAlSe"):
        consider(tokenize(text), text)
    long_a, long_b, long_c = "engineTemperatureWithinNominalOperatingRange", "coolantPressureWithinNominalOperatingRange", "manualOverrideEngagedByOperator"
    for ts in ([long_a, "&", long_b, "^", long_c], [long_a, "^", long_b, "&", long_c], [long_a, "&", long_b, "|", long_c, "^", long_a], ["~", long_a, "&", "(", long_b, "|", long_c, ")"]):
        consider(ts, " ".join(ts))


def _search_phases(rng, deep, ex, lang_n, n_long, n_mut, n_chars, consider, fails, samples):
    _long_inputs(consider)
    # 1. every string of the language up to lang_n, shortest first (so the first failure is a minimal one)
    pool = []
    for k in range(1, lang_n + 1):
        for ts in exprs(k):
            consider(list(ts), render(ts))
            pool.append(ts)
    if not deep:   # a sample of lengths 6 and 7
        for k in (6, 7):
            es = exprs(k)
            for ts in rng.sample(es, min(len(es), 500)):
                consider(list(ts), render(ts))
                pool.append(ts)
    # 3. spacing invariance and multi-letter / keyword-like names
    names_pool = ["r", "bar", "truex", "xfalse", "TRUE", "False", "t", "tru", "falsetrue", "Foo", "quitealongvariablename", "P", "Q"]
    for nm in names_pool:
        for ts in ([nm], ["~", nm], [nm, "&", "true"], ["(", nm, "|", "p", ")", "^", nm]):
            consider(ts, render(ts))
    # moderately deep nesting and a long chain (far below the interpreter's recursion limit, see NOTES)
    for ts in ([("(")] * 60 + ["p"] + [")"] * 60, ["~"] * 60 + ["foo"], ["~", "("] * 25 + ["q"] + [")"] * 25,
               ["p"] + ["&", "p"] * 25 + ["|", "q"] * 5):
        consider(ts, render(ts, "tight"))
    for ts in rng.sample(pool, min(len(pool), 1500 if deep else 500)):
        ren = {nm: rng.choice(names_pool) for nm in NAMES}
        ts2 = [ren.get(t, t) for t in ts] if rng.random() < 0.6 else list(ts)
        base = run_impl(render(ts2))
        for style in ("tight", "wide"):
            text = render(ts2, style, rng)
            f = consider(ts2, text)
            if not f and run_impl(text) != base:
                fails.append({"text": text, "tokens": ts2, "violation": "spacing changes the result",
                              "single_spaced": render(ts2), "impl_single_spaced": list(base[:1]) + [show_ast(base[1])] if base[0] == "pred" else list(base)})
    # 4. random longer texts (random parentheses), fully parenthesised renderings
    for _ in range(n_long):
        tr = rand_tree(rng, rng.randint(3, 10), rng.sample(NAMES + names_pool, 3))
        ts = tokens_of_tree(tr, rng)
        consider(ts, render(ts, rng.choice(["single", "tight", "wide"]), rng))
        if rng.random() < 0.5:
            fp = full_paren(tr)
            r = run_impl(render(fp))
            if not consider(fp, render(fp)) and r != ("pred", tr):
                fails.append({"text": render(fp), "violation": "a fully parenthesised text is not read back as the tree it renders",
                              "expected": show_ast(tr), "impl": show_ast(r[1]) if r[0] == "pred" else list(r)})
    samples.append({"text": render(ts), "in_language": True})
    # 4b. the fully parenthesised rendering of EVERY tree up to 5 (deep: 6) nodes is read back as that tree
    for nodes in range(1, 7 if deep else 6):
        for tr in all_trees(nodes):
            fp = full_paren(tr)
            if not consider(fp, render(fp, "tight")) and run_impl(render(fp, "tight")) != ("pred", tr):
                fails.append({"text": render(fp, "tight"), "violation": "a fully parenthesised text is not read back as the tree it renders",
                              "expected": show_ast(tr)})
    # 5. one-token mutants (mostly outside the language)
    base_pool = [ts for ts in pool if len(ts) >= 3]
    for _ in range(n_mut):
        ts = mutants(rng.choice(base_pool), rng, ALPHABET + ["r", "bar"])
        consider(ts, render(ts, rng.choice(["single", "tight"]), rng))
    samples.append({"text": render(ts), "in_language": is_lang(ts)})
    # 6. random character strings (lexing)
    CH = "pqtruefalsTF ~&|^()  "
    for _ in range(n_chars):
        text = "".join(rng.choice(CH) for _ in range(rng.randint(0, 14)))
        if rng.random() < 0.15:
            k = rng.randrange(len(text) + 1)
            text = text[:k] + rng.choice("1_\t\n.!-+=<>,*0") + text[k:]
        consider(tokenize(text), text)
    samples.append({"text": text, "tokens": tokenize(text)})

    # 7. every token string up to `ex` outside the language (exhaustive)
    for k in range(ex + 1):
        for ts in itertools.product(ALPHABET, repeat=k):
            if ts not in set_exprs(k):
                consider(list(ts), render(ts))


def replay(payload):
    inp = payload["replay"].get("input") or {}
    text = inp.get("text")
    if IMPORT_ERROR or text is None or text == "(any)":
        return {"fails": bool(IMPORT_ERROR), "note": IMPORT_ERROR or "no text in the replay file; re-run ./check C14", "input": inp}
    f = judge(tokenize(text), text)
    return {"fails": f is not None, "input": inp, "now": f or {"text": text, "impl": list(run_impl(text)[:1])}}


main({"correspondence": correspondence, "search": search, "replay": replay, "write_fingerprint": write_fingerprint})
