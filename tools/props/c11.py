"""C11 — generators are productive: next() yields or stops, never spins.
correspondence: the replay of C09/C10 on the productive kinds (the model whose step bound is proved is the model that reproduces the
                implementation's streams draw by draw), plus: the model's measured steps between consecutive yields never exceed
                the proved bound Bt / Bf on those runs.
search:         the real generators under the real PRNG: interpreter line events between consecutive next() results for every listed
                kind x bounds from 0 to beyond +-sys.maxsize / 1e300 x seeds; no internal error; satisfiable requests yield,
                unsatisfiable ones give an empty stream."""
import random
import sys

from common import call, main, rng_of
import gencommon as g
import c09

from predicate import generate_false         # the PUBLIC entry point (what users import)
from predicate import generate_true          # the PUBLIC entry point (what users import)
from predicate import predicate as PP
from predicate.standard_predicates import (all_p, any_p, eq_p, ge_p, gt_p, is_bool_p, is_complex_p, is_datetime_p, is_dict_p, is_float_p,
                                           is_int_p, is_none_p, is_not_none_p, is_set_of_p, is_set_p, is_str_p, is_uuid_p, le_p, lt_p,
                                           ne_p, is_falsy_p, is_truthy_p)
from predicate.set_predicates import in_p, not_in_p


def listed_true():
    ps = []
    for b in g.int_bounds():
        ps += [ge_p(b), gt_p(b), le_p(b), lt_p(b), eq_p(b)]
    for b in g.float_bounds():
        ps += [ge_p(b), gt_p(b), le_p(b), lt_p(b), eq_p(b)]
    ps += [in_p(1, 2, 3), in_p("a", "b"), not_in_p(1, 2), not_in_p("a"), not_in_p(*range(-100, 101)), is_none_p, is_not_none_p, is_falsy_p,
           is_truthy_p, PP.is_empty_p, is_bool_p, is_int_p, is_float_p, is_str_p, is_complex_p, is_dict_p, is_set_p, is_datetime_p, is_uuid_p]
    el = [ge_p(101), le_p(-5000), eq_p(4), is_int_p, is_bool_p, is_none_p, in_p(1, 2), is_str_p, is_float_p, is_dict_p, is_set_p, is_uuid_p,
          is_datetime_p, is_complex_p, gt_p(1e300)]
    for e in el:
        ps += [all_p(e), any_p(e), is_set_of_p(e)]
    ps += [eq_p(float("nan")), not_in_p(""), not_in_p("", "a"), all_p(not_in_p("")), in_p("")]
    # element predicates without examples: only the empty collection is left (still a value to give)
    ps += [all_p(PP.always_false_p), is_set_of_p(PP.always_false_p), all_p(in_p()), is_set_of_p(in_p()), all_p(all_p(PP.always_false_p))]
    return ps


def listed_false():
    ps = []
    for b in g.int_bounds():
        ps += [ge_p(b), gt_p(b), eq_p(b), ne_p(b)]
    for b in g.float_bounds():
        ps += [ge_p(b), gt_p(b)]
    ps += [in_p(1, 2, 3), in_p("a", "b"), is_none_p, is_not_none_p, is_falsy_p, is_truthy_p, PP.is_empty_p, is_bool_p, is_int_p, is_float_p, is_str_p,
           is_dict_p, is_set_p]
    for e in (ge_p(101), eq_p(4), is_int_p, is_none_p, is_not_none_p, gt_p(1e300)):
        ps += [all_p(e), is_set_of_p(e)]
    ps += [eq_p(float("nan")), ne_p(float("nan")), in_p(""), in_p("", "a"), all_p(eq_p(float("nan")))]
    # element predicates with very few / no satisfying values
    ps += [all_p(PP.always_false_p), is_set_of_p(PP.always_false_p), all_p(ne_p(None)), all_p(is_truthy_p), all_p(PP.is_empty_p),
           all_p(all_p(PP.always_false_p))]
    return ps


UNSAT_TRUE = [PP.always_false_p, any_p(PP.always_false_p), in_p()]
UNSAT_FALSE = [PP.always_true_p, all_p(PP.always_true_p), is_set_of_p(PP.always_true_p)]


def correspondence(payload):
    n_values = 10 if payload["tier"] == "quick" else 30
    fp = c09.g_fingerprint()
    d1, m1 = g.run_replay("c11t", "true", listed_true()[:: (2 if payload["tier"] == "quick" else 1)], n_values, int(payload["seed"]) + 5)
    d2, m2 = g.run_replay("c11f", "false", listed_false()[:: (2 if payload["tier"] == "quick" else 1)], n_values, int(payload["seed"]) + 6)
    desc = d1 + d2
    return {"evaluations": sum(d["values"] for d in desc), "distinct_nontrivial": len({(d["p"], d["mode"]) for d in desc if d["values"] >= 2}),
            "streams_replayed": len(desc), "draws_replayed": sum(d["draws"] for d in desc),
            "rule": "the kinds listed by C11 (comparison with int/float bounds from 0 to beyond +-sys.maxsize/1e300, eq, membership, none/truthy/empty, "
                    "nine type tests, all_p/any_p/set-of over those), generate_true and generate_false: draw-by-draw replay of the implementation on the "
                    "Coq program whose step bound is proved; non-trivial = streams with at least 2 values",
            "samples": desc[:: max(1, len(desc) // 5)][:5], "mismatches": fp + (m1 + m2)[:15]}


def search(payload):
    deep = payload.get("deep") or payload["tier"] == "thorough"
    n_values = 40 if deep else 12
    fails, known_hits, n, worst, slow = [], [], 0, (0, ""), []
    for mode, genf, preds in (("true", generate_true, listed_true()), ("false", generate_false, listed_false())):
        for seed in range(3 if deep else 1):
            for p in preds:
                random.seed(int(payload["seed"]) * 104729 + seed * 31 + len(repr(p)))
                try:
                    it = genf(p)
                except Exception as e:  # noqa: BLE001   every predicate listed here is of a kind C11 names: being refused is an internal error
                    fails.append({"p": repr(p), "generate": mode, "position": 0, "what": f"internal error {type(e).__name__}: {e}", "line_events": 0})
                    continue
                got = 0
                for i in range(n_values):
                    kind, v, lines = g.pull(it)
                    n += 1
                    if lines > worst[0]:
                        worst = (lines, f"generate_{mode}({p!r}) value {i}")
                    if kind == "value":
                        got += 1
                        continue
                    if kind == "stop":
                        break
                    if kind == "slow":          # wall clock ran out below the line budget: inconclusive, not a verdict
                        slow.append(f"generate_{mode}({p!r}) value {i}")
                        got += 1
                        break
                    fails.append({"p": repr(p), "generate": mode, "position": i,
                                  "what": ("spins: no value and no end of stream within the line-event budget" if kind == "spin" else f"internal error {v}"),
                                  "line_events": lines})
                    break
                if got == 0 and not any(f["p"] == repr(p) for f in fails):
                    sat = _satisfiable(mode, p)
                    if sat:
                        fails.append({"p": repr(p), "generate": mode, "what": "a satisfiable request gave an empty stream"})
    # beyond the small bounds: a member set covering +-100000, the 4300th value of float-backed streams, 9 nested any_p
    nest_any = is_int_p
    for _ in range(9):
        nest_any = any_p(nest_any)
    for mode, genf, p, count in (("true", generate_true, not_in_p(*range(-100_000, 100_001)), 3), ("false", generate_false, in_p(*range(-100_000, 100_001)), 3),
                                 ("true", generate_true, nest_any, 2), ("true", generate_true, ge_p(0.5), 4300), ("true", generate_true, le_p(-2.5), 4300),
                                 ("true", generate_true, is_float_p, 4300), ("false", generate_false, is_none_p, 12500), ("true", generate_true, is_int_p, 400),
                                 ("false", generate_false, ge_p(2), 400)):
        random.seed(int(payload["seed"]) + 77)
        try:
            it = genf(p)
        except Exception as e:  # noqa: BLE001
            fails.append({"p": repr(p)[:120], "generate": mode, "position": 0, "what": f"internal error {type(e).__name__}: {e}", "line_events": 0})
            continue
        if count <= 3:
            for i in range(count):
                kind, v, lines = g.pull(it, budget_lines=2_000_000)
                n += 1
                if kind in ("value", "slow"):
                    continue
                if kind == "stop" and i > 0:
                    break                       # a finite stream that has delivered
                fails.append({"p": repr(p)[:120], "generate": mode, "position": i,
                              "what": ("spins: no value and no end of stream within the line-event budget" if kind == "spin" else
                                       "a satisfiable request gave an empty stream" if kind == "stop" else f"internal error {v}"), "line_events": lines})
                break
        else:
            vals, err = g.take(it, count, seconds=60.0)
            n += len(vals)
            if err and err != "timeout":
                fails.append({"p": repr(p)[:120], "generate": mode, "position": len(vals), "what": f"internal error {err}", "line_events": 0})
            elif err == "timeout" and len(vals) < count // 2:
                slow.append(f"generate_{mode}({p!r}) after {len(vals)} values")
    # HISTORY (gencommon.history_block): the same satisfiable requests again and again in one process, on predicates built from the SAME
    # exported objects (is_none_p, a member set kept in a variable ...) and on temporaries, after requests that are refused with an
    # exception (kinds without a generator): each must still deliver a first value, and what is delivered must be of the right side
    from predicate.standard_predicates import ge_le_p as _gele
    kept = in_p(2, 3, 4)
    hm_t = [("any_p(is_none_p)", lambda: any_p(is_none_p)), ("any_p(kept) with kept = in_p(2, 3, 4)", lambda: any_p(kept)), ("any_p(is_truthy_p)", lambda: any_p(is_truthy_p)), ("any_p(is_complex_p)", lambda: any_p(is_complex_p)),
            ("any_p(is_int_p)", lambda: any_p(is_int_p)), ("any_p(ge_p(101))", lambda: any_p(ge_p(101))), ("all_p(ge_p(101))", lambda: all_p(ge_p(101))), ("is_set_of_p(is_str_p)", lambda: is_set_of_p(is_str_p)),
            ("all_p(is_none_p)", lambda: all_p(is_none_p)), ("is_set_of_p(is_bool_p)", lambda: is_set_of_p(is_bool_p)), ("any_p(eq_p(4))", lambda: any_p(eq_p(4))), ("any_p(any_p(is_int_p))", lambda: any_p(any_p(is_int_p)))]
    need = {lb for lb, _ in hm_t}
    refused = [("generate_true(all_p(ge_le_p(1, 5)))  # a kind without a generator: ValueError", lambda: next(iter(generate_true(all_p(_gele(1, 5)))))),
               ("generate_true(any_p(~is_int_p))  # ValueError", lambda: next(iter(generate_true(any_p(~is_int_p))))),
               ("generate_true(all_p(any_p(ge_le_p(0, 9))))  # ValueError", lambda: next(iter(generate_true(all_p(any_p(_gele(0, 9))))))),
               ("generate_true(is_set_of_p(~is_str_p))  # ValueError", lambda: next(iter(generate_true(is_set_of_p(~is_str_p)))))] * 3
    hn, hfails = g.history_block("true", generate_true, hm_t, poison=refused, seed=int(payload["seed"]), k=3, need_first=need)
    n += hn
    for f in hfails:
        f.setdefault("what", f"a yielded value is on the wrong side: {f.get('value')} -> {f.get('p(value)')}")
        f.setdefault("line_events", 0)
    fails += hfails
    # VERY long reads (120 000 values, untraced): next() must keep returning, whatever the process has produced so far
    for mode_, genf_, p_ in (("true", generate_true, ge_p(5)), ("true", generate_true, is_int_p), ("false", generate_false, ge_p(5)), ("true", generate_true, le_p(-7.5))):
        random.seed(int(payload["seed"]) + 17)
        it_ = iter(genf_(p_))
        got_ = 0
        try:
            for _ in range(120_000):
                next(it_)
                got_ += 1
        except StopIteration:
            pass
        except BaseException as e_:  # noqa: BLE001
            if isinstance(e_, (KeyboardInterrupt, SystemExit)):
                raise
            fails.append({"p": repr(p_), "generate": mode_, "position": got_, "what": f"internal error {type(e_).__name__}: {str(e_)[:120]}", "line_events": 0})
        n += got_ // 1000
    # the public keyword arguments of the set-of generator (sizes within what the element kind can supply): a first value must arrive
    from predicate.generator.generate_true import generate_set_of_p as _gen_set_of
    for kw in ({"min_size": 8, "max_size": 10}, {"min_size": 5, "max_size": 5}, {"min_size": 1, "max_size": 1}, {"min_size": 0, "max_size": 0}, {"min_size": 3, "max_size": 9, "order": True}):
        for e_ in (is_int_p, is_str_p, is_float_p):
            for seed_ in range(6):
                random.seed(seed_ * 31 + int(payload["seed"]))
                n += 1
                try:
                    kind, v, lines = g.pull(iter(_gen_set_of(is_set_of_p(e_), **kw)))
                except Exception as ex_:  # noqa: BLE001
                    kind, v, lines = "error", f"{type(ex_).__name__}: {ex_}", 0
                if kind == "value":
                    ok_ = hasattr(v, "__len__") and kw["min_size"] <= len(v) <= kw["max_size"]       # (a set, or a tuple of its members in random order)
                    if not ok_:
                        fails.append({"p": f"is_set_of_p({e_!r}) with {kw}", "generate": "true", "position": 0, "what": f"a set of {len(v) if hasattr(v, '__len__') else '?'} members for the sizes asked", "line_events": lines})
                        break
                elif kind != "slow":
                    fails.append({"p": f"is_set_of_p({e_!r}) with {kw}", "generate": "true", "position": 0, "seed": seed_,
                                  "what": ("a satisfiable request gave an empty stream" if kind == "stop" else f"{kind}: {v}"), "line_events": lines})
                    break
            else:
                continue
            break
    for p in UNSAT_TRUE:
        vals, err = g.take(generate_true(p), 3)
        n += 1
        if vals or err:
            fails.append({"p": repr(p), "generate": "true", "what": "an unsatisfiable request must give an empty stream", "got": repr(vals), "error": err})
    for p in UNSAT_FALSE:
        vals, err = g.take(generate_false(p), 3)
        n += 1
        if vals or err:
            fails.append({"p": repr(p), "generate": "false", "what": "an unsatisfiable request must give an empty stream", "got": repr(vals), "error": err})
    # known finding 15: rejection sampling has no bound for every PRNG: with randint pinned to its upper limit set-of(bool) never yields
    real = random.randint
    try:
        random.randint = lambda a, b: b
        kind, v, lines = g.pull(generate_true(is_set_of_p(is_bool_p)), budget_lines=20000, seconds=30.0)
    finally:
        random.randint = real
    if kind == "spin":
        known_hits.append({"id": 15, "p": "is_set_of_p(is_bool_p) with random.randint pinned to its upper limit"})
    return {"evaluations": n, "failures": fails[:5], "known_hits": known_hits, "worst_line_events_for_one_next": {"lines": worst[0], "where": worst[1]},
            "inconclusive_wall_clock": slow[:10],
            "samples": [{"p": "ge_p(sys.maxsize + 1)", "first": repr(g.take(generate_true(ge_p(sys.maxsize + 1)), 2)[0])}]}


def _satisfiable(mode, p):
    r = repr(p)
    if mode == "true":
        if r.startswith(("all(", "is_set_of_p(")):
            return True          # the empty collection satisfies every for-all
        return not any(t in r for t in ("always_false_p", "in_p()"))
    if r.startswith("all(") and "always_true_p" not in r and "not_in_p()" not in r:
        return r not in ("all(always_false_p)",) or True
    return not any(t in r for t in ("always_true_p", "not_in_p()"))


def replay(payload):
    return {"fails": True, "input": payload["replay"].get("input")}


if __name__ == "__main__":
    main({"correspondence": correspondence, "search": search, "replay": replay})
