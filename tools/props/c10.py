"""C10 — every value produced by generate_false(p) violates p.   (see gencommon.py for the replay correspondence)"""
import random

from common import call, main, rng_of
import gencommon as g
from optcommon import skey
import c09

from predicate import generate_false         # the PUBLIC entry point (what users import)
from predicate import predicate as PP
from predicate.standard_predicates import ge_p, is_int_p, is_str_p

GENF = generate_false


def correspondence(payload):
    n_values = 12 if payload["tier"] == "quick" else 40
    preds = g.grid_false(payload["tier"])
    if payload["tier"] == "quick":
        preds = preds[int(payload["seed"]) % 2::2]       # half of the grid per run, alternating with the seed
    fp = c09.g_fingerprint()
    desc, mism = g.run_replay("c10", "false", preds, n_values, int(payload["seed"]) + 1, max_draws=(1500 if payload["tier"] == "quick" else None))
    if payload["tier"] == "thorough":
        for s in (2, 3):
            d2, m2 = g.run_replay("c10", "false", preds, n_values, int(payload["seed"]) + 10 * s)
            desc += d2
            mism += m2
    return {"evaluations": sum(d["values"] for d in desc), "distinct_nontrivial": len({d["p"] for d in desc if d["values"] >= 2}),
            "streams_replayed": len(desc), "draws_replayed": sum(d["draws"] for d in desc),
            "rule": "generate_false over the grid (int/float/datetime/str bounds incl. beyond +-sys.maxsize and 1e300, eq/ne/in, none/truthy/empty, type "
                    "tests, all_p/set-of, &, |): every random draw of the implementation is recorded and replayed on the Coq program gen_false; "
                    "the first N values must agree; non-trivial = streams with at least 2 values",
            "samples": desc[:: max(1, len(desc) // 5)][:5], "mismatches": fp + mism[:15]}


def search(payload):
    deep = payload.get("deep") or payload["tier"] == "thorough"
    preds = g.grid_false(payload["tier"]) + g.search_extra("false")
    n_values = 60 if deep else 25
    fails, known_hits, n, timeouts = [], [], 0, 0
    for seed in range(3 if deep else 1):
        for p in preds:
            random.seed(int(payload["seed"]) * 7919 + seed * 131 + len(repr(p)))
            try:
                vals, err = g.take(GENF(p), n_values)
            except ValueError:
                continue
            if err == "timeout":            # a stream that does not deliver is C11's business: do not wait for every one of them
                timeouts += 1
                if timeouts >= 3:
                    break
            for i, v in enumerate(vals):
                n += 1
                k, r = call(p, v)
                if k != "ok" or r:
                    rec = {"p": repr(p), "p_structure": skey(p), "position": i, "value": repr(v), "p(value)": (repr(r) if k == "ok" else f"raises {r}")}
                    if k == "raise" and any(isinstance(t, (PP.AndPredicate, PP.OrPredicate)) for t in g.subterms(p)):
                        known_hits.append({"id": 14, "p": repr(p)})
                    else:
                        fails.append(rec)
                    break
        if timeouts >= 3:
            break
    # short str / extreme bounds: the bound itself is a rare draw, so these streams are read far (cheap: no collections)
    from predicate.standard_predicates import gt_p
    from predicate.standard_predicates import eq_true_p, eq_false_p, eq_p
    plain = {id(eq_true_p): lambda v: v == True, id(eq_false_p): lambda v: v == False}      # noqa: E712  (the plain-Python meaning of the exported names)
    far = [ge_p("a"), ge_p("b"), gt_p(""), gt_p("a"), ge_p("A"), ge_p("0"), eq_true_p, eq_false_p, eq_p(True), eq_p(1), eq_p(0),
           ge_p(3), gt_p(3), ge_p(-7), ge_p(1000), ge_p(2.5), gt_p(-0.5)]
    plain[id(far[8])], plain[id(far[9])], plain[id(far[10])] = (lambda v: v == True), (lambda v: v == 1), (lambda v: v == 0)    # noqa: E712
    for p in far:
        for seed in range(2):
            random.seed(int(payload["seed"]) * 104729 + seed)
            if timeouts >= 3:
                break
            try:
                vals, err = g.take(GENF(p), 6000 if deep else 3000, seconds=60.0)
            except (ValueError, TypeError):
                continue
            if err == "timeout":
                timeouts += 1
            for i, v in enumerate(vals):
                n += 1
                k, r = call(p, v)
                if id(p) in plain:          # judged by the plain meaning of the constructor call, not by the object's own __call__
                    try:
                        k, r = "ok", bool(plain[id(p)](v))
                    except Exception:  # noqa: BLE001
                        k, r = "ok", False
                if k != "ok" or r:
                    fails.append({"p": repr(p), "p_structure": skey(p), "position": i, "value": repr(v), "p(value)": (repr(r) if k == "ok" else f"raises {r}"),
                                  "library_says": repr(call(p, v))})
                    break
    # collections read a few hundred values deep: elements that are == but of another type (0/False, 1/True, 1.0) next to each other
    from predicate.standard_predicates import all_p as _all0, is_bool_p as _isbool, is_float_p as _isfloat, is_set_of_p as _setof
    for p in (_all0(_isbool), _all0(_isbool | is_str_p), _all0(_all0(_isbool)), _all0(is_int_p), _all0(_isfloat), _setof(_isbool), _setof(is_int_p), _all0(eq_p(1)), _all0(eq_p(True))):
        for seed in range(3):
            if timeouts >= 3:
                break
            random.seed(int(payload["seed"]) * 7 + seed)
            try:
                vals, err = g.take(GENF(p), 400, seconds=30.0)
            except (ValueError, TypeError):
                continue
            if err == "timeout":
                timeouts += 1
            bad = next((i for i, v in enumerate(vals) if call(p, v) != ("ok", False)), None)
            n += len(vals)
            if bad is not None:
                fails.append({"p": repr(p), "p_structure": skey(p), "position": bad, "value": repr(vals[bad])[:200], "p(value)": repr(call(p, vals[bad])), "seed": seed})
                break
    # HISTORY (gencommon.history_block): requests on TEMPORARY predicates one after the other, judged by fresh copies; the caller mutates the
    # containers it was handed and asks again; set-of over element kinds whose counter-examples cannot be hashed
    from predicate.standard_predicates import is_truthy_p as _truthy10, is_falsy_p as _falsy10
    hm = []
    for b in range(5000, -5001, -1000):
        hm += [(f"is_set_of_p(ge_p({b}))", lambda b=b: _setof(ge_p(b))), (f"all_p(ge_p({b}))", lambda b=b: _all0(ge_p(b)))]
    hm += [("is_empty_p", lambda: PP.is_empty_p), ("is_truthy_p", lambda: _truthy10), ("all_p(is_empty_p)", lambda: _all0(PP.is_empty_p)), ("is_set_of_p(is_int_p)", lambda: _setof(is_int_p)),
           ("is_set_of_p(is_set_of_p(is_int_p))", lambda: _setof(_setof(is_int_p))), ("is_set_of_p(is_empty_p)", lambda: _setof(PP.is_empty_p)), ("all_p(is_truthy_p)", lambda: _all0(_truthy10))]
    hn, hfails = g.history_block("false", GENF, hm, seed=int(payload["seed"]))
    n += hn
    fails += hfails
    # members that are == to values of another type (3.0 next to ints): far reads; bounds that are timezone-AWARE datetimes
    import datetime as _dt10
    from fractions import Fraction as _Fr
    from predicate.set_predicates import in_p as _in10
    tzs = [_dt10.timezone(_dt10.timedelta(hours=h)) for h in (-5, 0, 5, -11)]
    for p, count in [(_in10(1, 2, 3.0), 3000), (_in10(0, -1.0), 3000), (_in10(10, 20, _Fr(21)), 3000), (_in10(True, 2), 1500), (_in10(1.0, 2.0, 3.0), 1500)] + \
                    [(ge_p(_dt10.datetime(2026, 3, 1, 9, 0, tzinfo=z)), 300) for z in tzs] + [(gt_p(_dt10.datetime(2026, 10, 25, 2, 30, tzinfo=z)), 300) for z in tzs[:2]]:
        for seed in range(2):
            if timeouts >= 3:
                break
            random.seed(int(payload["seed"]) * 5 + seed + 1)
            try:
                vals, err = g.take(GENF(p), count, seconds=40.0)
            except (ValueError, TypeError):
                continue
            if err == "timeout":
                timeouts += 1
            bad = next((i for i, v in enumerate(vals) if call(p, v) != ("ok", False)), None)
            n += len(vals)
            if bad is not None:
                fails.append({"p": repr(p), "p_structure": skey(p), "position": bad, "value": repr(vals[bad])[:200], "p(value)": repr(call(p, vals[bad])), "seed": seed})
                break
    # quantifiers nested 8 deep: slow (seconds per value), so only the first value of one stream each is read
    from predicate.standard_predicates import all_p as _all, any_p as _any
    for outer, leaf in ((_all, is_int_p), (_all, ge_p(3)), (_any, is_str_p)):
        p = leaf
        for _ in range(8):
            p = outer(p)
        if timeouts >= 3:
            break
        random.seed(int(payload["seed"]) + 2)
        try:
            vals, err = g.take(GENF(p), 2, seconds=90.0)
        except (ValueError, TypeError):
            continue
        if err == "timeout":
            timeouts += 1
        for i, v in enumerate(vals):
            n += 1
            k, r = call(p, v)
            if k != "ok" or r:
                fails.append({"p": repr(p), "p_structure": skey(p), "position": i, "value": repr(v)[:300], "p(value)": (repr(r) if k == "ok" else f"raises {r}")})
                break
    w14 = ge_p(3) & is_int_p
    random.seed(1)
    vals, _ = g.take(GENF(w14), 8)
    if any(call(w14, v)[0] == "raise" for v in vals):
        known_hits.append({"id": 14, "p": repr(w14)})
    return {"evaluations": n, "failures": fails[:5], "known_hits": known_hits, "samples": [{"p": "ge_p(100.0)", "first": repr(g.take(GENF(ge_p(100.0)), 3)[0])}]}


def replay(payload):
    return {"fails": True, "input": payload["replay"].get("input")}


if __name__ == "__main__":
    main({"correspondence": correspondence, "search": search, "replay": replay})
