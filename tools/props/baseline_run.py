"""Run under PYTHONPATH=tools/props/baseline (a snapshot of the library's `predicate/` package at the REVIEWED commit, the one
the known findings were established on).  stdin: pickle of [(p, x, assignments)], stdout: JSON list of true (the reviewed code
also changes the answer of p at x when optimizing) / false (it does not) / null (cannot tell).
Used ONLY to attribute a failing input to a listed known finding when the Coq model of the CURRENT source is unavailable (the
translator refused it): a known finding is an input on which the reviewed code already fails."""
import json
import pickle
import sys


def main():
    cases = pickle.loads(sys.stdin.buffer.read())
    from predicate import optimize
    from predicate.named_predicate import NamedPredicate

    def subterms(p):
        yield p
        for a in ("left", "right", "predicate"):
            c = getattr(p, a, None)
            if c is not None and hasattr(c, "__call__") and hasattr(c, "__dataclass_fields__"):
                yield from subterms(c)

    def set_names(p, env):
        for t in subterms(p):
            if isinstance(t, NamedPredicate):
                t.v = bool(env.get(t.name, False))

    out = []
    for p, x, assignments in cases:
        try:
            q = optimize(p)
            if assignments:
                set_names(p, x)
                set_names(q, x)
                rp, rq = p(False), q(False)
            else:
                rp = p(x)
                try:
                    rq = q(x)
                except Exception:  # noqa: BLE001
                    out.append(True)
                    continue
            out.append(bool(rp) != bool(rq))
        except Exception:  # noqa: BLE001
            out.append(None)
    print(json.dumps(out))


main()
