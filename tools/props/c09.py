"""C09 — every value produced by generate_true(p) satisfies p.   (see gencommon.py for the replay correspondence)"""
import random

from common import call, main, rng_of, vlib
import gencommon as g
from optcommon import skey

from predicate import generate_true          # the PUBLIC entry point (what users import)
from predicate import predicate as PP
from predicate.standard_predicates import (ge_p, is_dict_of_p, is_int_p, is_str_p, is_tuple_of_p, is_list_of_p, regex_p, eq_p, le_p, is_bool_p, is_none_p)
from predicate.set_predicates import is_real_subset_p, is_subset_p

MODE = "true"
GENF = generate_true


class _Celsius(float):
    pass


class _Name(str):
    pass


def _subclass_kinds():
    import collections
    import enum
    from predicate.standard_predicates import is_instance_p

    class Level(enum.IntEnum):
        OFF = 0
        ON = 1
    return [is_instance_p(collections.OrderedDict), is_instance_p(collections.Counter), is_instance_p(collections.defaultdict), is_instance_p(_Celsius),
            is_instance_p(Level), is_instance_p(_Name), is_instance_p(frozenset), is_instance_p(bytes), is_instance_p(bool, str)]


def _flagged_regexes():
    import re
    from predicate.regex_predicate import RegexPredicate
    out = []
    for pat, fl in (("straße|gasse|weg", re.IGNORECASE), ("İstanbul|ankara", re.IGNORECASE), ("^(yes|no)$", re.IGNORECASE), ("ab+c", re.IGNORECASE), ("a.c", re.DOTALL), ("^x$", re.MULTILINE)):
        try:
            out.append(RegexPredicate(pat, flags=fl))
        except TypeError:
            pass                      # a RegexPredicate without a flags parameter: nothing to generate for
    return out


def extra_kinds():
    """kinds outside the Coq model: judged by the search only (a kind the generators do not support may raise ValueError or give an
    empty stream; whatever IS yielded must satisfy the predicate)"""
    return _subclass_kinds() + [is_tuple_of_p(is_int_p, is_str_p), is_tuple_of_p(), is_dict_of_p((is_str_p, is_int_p)), is_dict_of_p(("a", is_int_p)),
            is_list_of_p(is_int_p), is_list_of_p(ge_p(3) | is_str_p), regex_p("^foo[0-9]+"), regex_p("a|b"), *_flagged_regexes(),
            is_subset_p({1, 2, 3}), is_real_subset_p({1, 2}), is_subset_p(set())]


def correspondence(payload):
    n_values = 12 if payload["tier"] == "quick" else 40
    preds = g.grid_true(payload["tier"])
    if payload["tier"] == "quick":
        preds = preds[int(payload["seed"]) % 2::2]       # half of the grid per run, alternating with the seed
    fp = g_fingerprint()
    desc, mism = g.run_replay("c09", MODE, preds, n_values, int(payload["seed"]) + 1, max_draws=(1500 if payload["tier"] == "quick" else None))
    if payload["tier"] == "thorough":
        for s in (2, 3):
            d2, m2 = g.run_replay("c09", MODE, preds, n_values, int(payload["seed"]) + 10 * s)
            desc += d2
            mism += m2
    # is_tuple_of_p: its own program (Lemmas/GenTupleOf.v), tuples compared component by component in order
    import ast as _ast, json as _json, os as _os
    tsrc = _ast.unparse(_ast.parse(open(_os.path.join(vlib.REPO, "predicate/tuple_of_predicate.py")).read()))
    fpf = _os.path.join(_os.path.dirname(__file__), "fingerprints", "c08_tuple_of.json")
    if not _os.path.exists(fpf) or _json.load(open(fpf)).get("source") != tsrc:
        fp.append({"case": "source fingerprint", "file": "predicate/tuple_of_predicate.py", "note": "Lemmas/TupleOf.v / GenTupleOf.v were written against another text"})
    tdesc, tmism = g.run_replay_tuple("c09", g.tuple_grid(), n_values, int(payload["seed"]) + 1)
    if payload["tier"] == "thorough":
        for s in (2, 3):
            d2, m2 = g.run_replay_tuple("c09", g.tuple_grid(), n_values, int(payload["seed"]) + 10 * s)
            tdesc += d2
            tmism += m2
    # is_dict_of_p: Lemmas/DictOf.v (__call__) + Lemmas/GenDictOf.v (generator)
    dsrc = _ast.unparse(_ast.parse(open(_os.path.join(vlib.REPO, "predicate/dict_of_predicate.py")).read()))
    fpd = _os.path.join(_os.path.dirname(__file__), "fingerprints", "c09_dict_of.json")
    if not _os.path.exists(fpd) or _json.load(open(fpd)).get("source") != dsrc:
        fp.append({"case": "source fingerprint", "file": "predicate/dict_of_predicate.py", "note": "Lemmas/DictOf.v / GenDictOf.v were written against another text"})
    ddesc, dmism, dextra = g.run_replay_dict("c09", g.dict_grid(), n_values, int(payload["seed"]) + 1)
    desc += tdesc + ddesc
    mism = tmism + dmism + mism
    return {"evaluations": sum(d["values"] for d in desc), "distinct_nontrivial": len({d["p"] for d in desc if d["values"] >= 2}),
            "streams_replayed": len(desc), "draws_replayed": sum(d["draws"] for d in desc), "tuple_of_streams_replayed": len(tdesc), "dict_of_streams_replayed": len(ddesc), **dextra,
            "rule": "generate_true over the grid (int bounds 0..+-(sys.maxsize+1)..1e30, float bounds 0..1e300 and subnormal, datetime/str constants, "
                    "eq/ne/in/not_in, none/truthy/empty, nine type tests, all_p/any_p/set-of over 12 element kinds, &, |, has_key): every random "
                    "draw of the implementation is recorded and replayed on the Coq program gen_true; the first N values must agree; "
                    "non-trivial = streams with at least 2 values; is_tuple_of_p over 23 component lists (0-6 components, finite and empty component "
                    "streams, every constant sort) replayed on gen_tuple_of, tuples compared component by component in order; is_dict_of_p over 16 entry lists (literal, overlapping, "
                    "equal and never-satisfied keys) replayed on gen_dict_of, dicts compared item by item in insertion order, and DictOfPredicate.__call__ "
                    "compared with dict_of_items on the yielded and on hand-written dicts",
            "samples": desc[:: max(1, len(desc) // 5)][:5], "mismatches": fp + mism[:15]}


def g_fingerprint():
    import ast, json, os
    want = json.load(open(os.path.join(os.path.dirname(__file__), "fingerprints", "gen.json")))
    out = []
    for f in ("predicate/generator/helpers.py", "predicate/generator/generate_true.py", "predicate/generator/generate_false.py"):
        src = " ".join(ast.unparse(ast.parse(open(os.path.join(vlib.REPO, f)).read())).split())
        if want.get(f) != src:
            out.append({"case": "source fingerprint", "file": f, "note": "the hand-written generator model was written against another text"})
    return out


def known_witness(fails):
    """D19 (dict_of with overlapping key predicates) and the `|` finding are listed in known_findings.json"""
    return fails


def search(payload):
    rng = rng_of(payload)
    deep = payload.get("deep") or payload["tier"] == "thorough"
    preds = g.grid_true(payload["tier"]) + extra_kinds() + g.search_extra("true")
    n_values = 60 if deep else 25
    fails, known_hits, n, timeouts = [], [], 0, 0
    for seed in range(4 if deep else 3):
        for p in preds:
            random.seed(int(payload["seed"]) * 7919 + seed * 131 + len(repr(p)))
            try:
                vals, err = g.take(GENF(p), n_values)
            except (ValueError, TypeError):
                continue
            if err == "timeout":            # a stream that does not deliver is C11's business: do not wait for every one of them
                timeouts += 1
                if timeouts >= 3:
                    break
            for i, v in enumerate(vals):
                n += 1
                k, r = call(p, v)
                if k != "ok" or not r:
                    rec = {"p": repr(p), "p_structure": skey(p), "position": i, "value": repr(v), "p(value)": (repr(r) if k == "ok" else f"raises {r}")}
                    if k == "raise" and any(isinstance(t, PP.OrPredicate) for t in g.subterms(p)):
                        known_hits.append({"id": 13, "p": repr(p)})
                    else:
                        fails.append(rec)
                    break
        if timeouts >= 3:
            break
    # FAR reads: the 40th-6000th value of streams whose first values are always fine
    import datetime as _dt
    from predicate.set_predicates import is_real_subset_p as _rs
    from predicate.standard_predicates import gt_p as _gt, lt_p as _lt
    d1 = _dt.datetime(2024, 1, 15, 10, 30)
    for p, count in ((_gt(d1), 200), (_lt(d1), 200), (_rs(set(range(11))), 7000), (_rs(set(range(12))), 5000), (ge_p(5), 400), (le_p(-7), 400),
                     (ge_p(0.5), 4300), (is_list_of_p(ge_p(2)), 300)):
        for seed in range(2):
            if timeouts >= 3:
                break
            random.seed(int(payload["seed"]) * 911 + seed)
            try:
                vals, err = g.take(GENF(p), count, seconds=60.0)
            except (ValueError, TypeError):
                continue
            if err == "timeout":
                timeouts += 1
            elif err:
                fails.append({"p": repr(p), "p_structure": skey(p), "position": len(vals), "value": "(none)", "p(value)": f"the stream raised {err}"})
                break
            bad_i = next((i for i, v in enumerate(vals) if call(p, v) != ("ok", True)), None)
            n += len(vals)
            if bad_i is not None:
                fails.append({"p": repr(p), "p_structure": skey(p), "position": bad_i, "value": repr(vals[bad_i])[:200], "p(value)": repr(call(p, vals[bad_i]))})
                break
    # collections read a few hundred values deep (elements that are == but of another type: 0/False, 1/True)
    from predicate.standard_predicates import any_p as _any0, all_p as _all0, is_set_of_p as _setof, is_float_p as _isfloat
    for p in (_any0(is_bool_p), _any0(eq_p(0)), _any0(is_int_p), _any0(_isfloat), _any0(is_bool_p | is_str_p), _all0(_any0(is_bool_p)), _setof(is_bool_p), _all0(is_bool_p)):
        for seed in range(4):
            if timeouts >= 3:
                break
            random.seed(int(payload["seed"]) * 13 + seed + 8)
            try:
                vals, err = g.take(GENF(p), 400, seconds=30.0)
            except (ValueError, TypeError):
                continue
            if err == "timeout":
                timeouts += 1
            bad_i = next((i for i, v in enumerate(vals) if call(p, v) != ("ok", True)), None)
            n += len(vals)
            if bad_i is not None:
                fails.append({"p": repr(p), "p_structure": skey(p), "position": bad_i, "value": repr(vals[bad_i])[:200], "p(value)": repr(call(p, vals[bad_i])), "seed": seed})
                break
    # tuple 'of' / dict 'of' with SEVERAL components: components that print alike, literal keys, finite and repeated component streams.
    # dict_of entries whose keys can be mistaken for one another are known finding 12 (DictOf `Compat` in the Coq model); the others must hold
    from predicate.standard_predicates import is_dict_of_p as _dof, is_tuple_of_p as _tof, ne_p as _ne
    from predicate.set_predicates import in_p as _in
    multi = [(t, None) for t in g.tuple_grid()]
    multi += [(_tof(eq_p(1), eq_p("1")), None), (_tof(ge_p(3), ge_p("m"), ge_p(3)), None), (_tof(_dof(("a", is_int_p)), _dof(("b", is_str_p))), None),
              (_tof(is_int_p, is_int_p, is_str_p, is_int_p), None), (_tof(_in(1, 2), _in("1", "2")), None), (_tof(_tof(is_int_p, is_str_p), _tof(is_str_p, is_int_p)), None)]
    compat = [_dof(("name", is_str_p), ("age", is_int_p)), _dof(("a", is_int_p), ("b", is_str_p), ("c", is_bool_p)), _dof((eq_p(1), ge_p(3)), (eq_p(2), is_none_p)),
              _dof(("k", _tof(is_int_p, is_str_p)), ("l", is_list_of_p(is_int_p))), _dof(("a", _dof(("x", is_int_p), ("y", is_str_p))), ("b", is_int_p)),
              _dof((eq_p(1), eq_p("one")), (eq_p("1"), eq_p(1))), _dof((_in(1, 2), is_int_p), (_in("p", "q"), is_str_p))]
    multi += [(d, None) for d in compat]
    overlapping = [_dof(("a", is_int_p), (is_str_p, is_str_p)), _dof((eq_p(1), eq_p(5)), (ge_p(0), ge_p(7))), _dof((is_str_p, is_int_p), ("age", is_str_p))]
    multi += [(d, 12) for d in overlapping]
    for p, finding in multi:
        for seed in range(2):
            random.seed(int(payload["seed"]) * 17 + seed + 3)
            try:
                vals, err = g.take(GENF(p), 30, seconds=20.0)
            except (ValueError, TypeError):
                continue
            n += len(vals)
            bad_i = next((i for i, v in enumerate(vals) if call(p, v) != ("ok", True)), None)
            if bad_i is not None:
                if finding is not None:
                    known_hits.append({"id": finding, "p": repr(p)})
                else:
                    label = (type(p).__name__ + "(" + ", ".join(repr(c) for c in getattr(p, "predicates", getattr(p, "key_value_predicates", []))) + ")")
                    comps = getattr(p, "predicates", None) or [c for kv in getattr(p, "key_value_predicates", []) for c in kv]
                    fails.append({"p": label, "components_structure": [str(skey(c)) for c in comps], "position": bad_i, "value": repr(vals[bad_i])[:300],
                                  "p(value)": repr(call(p, vals[bad_i])), "seed": seed})
                break
    # HISTORY (gencommon.history_block): requests on TEMPORARY predicates one after the other, judged by fresh copies; the caller mutates
    # the containers it was handed and asks again; a conjunction whose second operand cannot be applied to the first one's candidates
    from predicate.standard_predicates import is_falsy_p as _falsy, is_truthy_p as _truthy, is_not_none_p as _notnone, gt_p as _gt9
    hm = []
    for i in range(1, 9):
        hm += [(f"any_p(ge_p({1000 * i}))", lambda i=i: _any0(ge_p(1000 * i))), (f"any_p(le_p({-1000 * i}))", lambda i=i: _any0(le_p(-1000 * i))), (f"all_p(ge_p({1000 * i}))", lambda i=i: _all0(ge_p(1000 * i))),
               (f"is_set_of_p(ge_p({500 * i}))", lambda i=i: _setof(ge_p(500 * i)))]
    hm += [("is_empty_p", lambda: PP.is_empty_p), ("is_falsy_p", lambda: _falsy), ("is_truthy_p", lambda: _truthy), ("all_p(is_empty_p)", lambda: _all0(PP.is_empty_p)), ("any_p(is_truthy_p)", lambda: _any0(_truthy)),
           ("is_not_none_p & ge_p(0)", lambda: _notnone & ge_p(0)), ("is_int_p & gt_p(-5)", lambda: is_int_p & _gt9(-5)), ("ge_p(0) & is_not_none_p", lambda: ge_p(0) & _notnone)]
    hn, hfails = g.history_block("true", GENF, hm, seed=int(payload["seed"]))
    n += hn
    fails += hfails
    # ENVIRONMENT: the same datetime requests in fresh interpreters whose LOCAL TIME ZONE has daylight saving, with naive bounds inside the
    # repeated hour of the autumn switch and the skipped hour of the spring switch (values are judged inside that interpreter)
    import subprocess as _sp9
    import sys as _sys9
    src9 = ("import random, itertools, datetime as dt\nfrom predicate import generate_true, generate_false\nfrom predicate.standard_predicates import ge_p, gt_p, le_p, lt_p\n"
            "bad = None\nfor mk, b in ((ge_p, dt.datetime(2026, 10, 25, 2, 30)), (gt_p, dt.datetime(2026, 11, 1, 1, 30)), (le_p, dt.datetime(2026, 3, 29, 2, 30)), (lt_p, dt.datetime(2026, 3, 8, 2, 30))):\n"
            "    p = mk(b)\n    for mode, g in (('true', generate_true), ('false', generate_false)):\n        random.seed(%d)\n        try:\n            it = iter(g(p))\n        except ValueError:\n            continue\n"
            "        for i, v in enumerate(itertools.islice(it, 15000)):\n            if bool(p(v)) != (mode == 'true'):\n                bad = (mode, repr(p), i, repr(v)); break\n        if bad: break\n    if bad: break\n"
            "print(repr(bad))\n" % (int(payload["seed"]) + 3))
    for tz in ("Europe/Amsterdam", "America/New_York", "Australia/Sydney"):
        n += 1
        try:
            o_ = _sp9.run([_sys9.executable, "-c", src9], env=dict(vlib.ENV, TZ=tz), text=True, stdout=_sp9.PIPE, stderr=_sp9.PIPE, timeout=600).stdout.strip().splitlines()
            verdict = o_[-1] if o_ else "None"
        except Exception:  # noqa: BLE001
            verdict = "None"                         # that interpreter could not be run: inconclusive
        if verdict not in ("None", ""):
            fails.append({"p": "a naive datetime bound at a daylight-saving switch", "environment": f"TZ={tz}", "first_wrong": verdict,
                          "p(value)": "on the wrong side (judged in the interpreter that generated it)", "position": "see first_wrong: (mode, predicate, position, value)"})
            break
    # judged by a reference written from the CONSTRUCTOR CALL, not by the object the library built (a factory that re-interprets its
    # arguments, or an object mutated on the way, would otherwise vouch for its own values)
    from predicate.set_predicates import in_p
    small = in_p(1, 2)
    specs = [("in_p((0, 0))", lambda: in_p((0, 0)), lambda v: v == (0, 0)),
             ("in_p((1, 2), (3, 4))", lambda: in_p((1, 2), (3, 4)), lambda v: v in ((1, 2), (3, 4))),
             ("in_p(frozenset({1}))", lambda: in_p(frozenset({1})), lambda v: v == frozenset({1})),
             ("eq_p((1, 2))", lambda: eq_p((1, 2)), lambda v: v == (1, 2)),
             ("is_tuple_of_p(in_p((1, 2)), is_int_p)", lambda: is_tuple_of_p(in_p((1, 2)), is_int_p),
              lambda v: isinstance(v, tuple) and len(v) == 2 and v[0] == (1, 2) and isinstance(v[1], int)),
             ("is_tuple_of_p(is_list_of_p(small | eq_p(3)), small) with small = in_p(1, 2) shared", lambda: is_tuple_of_p(is_list_of_p(small | eq_p(3)), small),
              lambda v: isinstance(v, tuple) and len(v) == 2 and isinstance(v[0], list) and all(i in (1, 2, 3) for i in v[0]) and v[1] in (1, 2)),
             ("in_p(1, 2) after it was used inside a generated disjunction", lambda: small, lambda v: v in (1, 2))]
    for label, mk_, ref_ in specs:
        for seed in range(3):
            random.seed(int(payload["seed"]) * 31 + seed)
            try:
                vals, err = g.take(GENF(mk_()), 12)
            except (ValueError, TypeError):
                continue
            for i, v in enumerate(vals):
                n += 1
                try:
                    okv = bool(ref_(v))
                except Exception:  # noqa: BLE001
                    okv = False
                if not okv:
                    fails.append({"p": label, "position": i, "value": repr(v), "p(value)": "False by the plain-Python meaning of the constructor call",
                                  "library_says": repr(call(mk_(), v))})
                    break
            else:
                continue
            break
    # listed witnesses
    w12 = is_dict_of_p(("a", is_int_p), (is_str_p, is_str_p))
    random.seed(1)
    vals, _ = g.take(GENF(w12), 5)
    if any(call(w12, v) != ("ok", True) for v in vals):
        known_hits.append({"id": 12, "p": repr(w12)})
    w13 = ge_p(3) | is_str_p
    random.seed(1)
    vals, _ = g.take(GENF(w13), 6)
    if any(call(w13, v)[0] == "raise" for v in vals):
        known_hits.append({"id": 13, "p": repr(w13)})
    return {"evaluations": n, "failures": fails[:5], "known_hits": known_hits, "samples": [{"p": "ge_p(101)", "first": repr(g.take(GENF(ge_p(101)), 3)[0])}]}


def replay(payload):
    return {"fails": True, "input": payload["replay"].get("input")}


if __name__ == "__main__":
    main({"correspondence": correspondence, "search": search, "replay": replay})
