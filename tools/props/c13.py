"""C13 — the basic Boolean laws are applied at the root for every atom.
correspondence: optimize(law(p)) on the implementation vs the generated optimizer, structurally, for every atom class x
                parameter grid x 28 laws.
search:         optimize(law(p)) == expected on the implementation (expected: always_false_p, always_true_p, optimize(p), optimize(~p))."""
from common import call, enc, gen, main, rng_of
import optcommon as oc

from predicate import optimize
from predicate import predicate as PP
from predicate.named_predicate import NamedPredicate
from predicate.negate import negate
from predicate.set_predicates import in_p, is_subset_p, not_in_p
from predicate.standard_predicates import has_key_p, has_length_p, lazy_p, regex_p, tee_p, this_p, root_p

T, F = PP.always_true_p, PP.always_false_p
A, O, X, N = PP.AndPredicate, PP.OrPredicate, PP.XorPredicate, PP.NotPredicate


def laws(p):
    return [
        ("p & ~p", A(p, N(p)), "F"), ("~p & p", A(N(p), p), "F"), ("p & negate(p)", A(p, negate(p)), "F"), ("negate(p) & p", A(negate(p), p), "F"),
        ("p | ~p", O(p, N(p)), "T"), ("~p | p", O(N(p), p), "T"), ("p | negate(p)", O(p, negate(p)), "T"), ("negate(p) | p", O(negate(p), p), "T"),
        ("p ^ ~p", X(p, N(p)), "T"), ("~p ^ p", X(N(p), p), "T"), ("p ^ negate(p)", X(p, negate(p)), "T"), ("negate(p) ^ p", X(negate(p), p), "T"),
        ("p ^ p", X(p, p), "F"),
        ("p & p", A(p, p), "P"), ("p | p", O(p, p), "P"), ("p & true", A(p, T), "P"), ("true & p", A(T, p), "P"),
        ("p | false", O(p, F), "P"), ("false | p", O(F, p), "P"), ("p ^ false", X(p, F), "P"), ("false ^ p", X(F, p), "P"), ("~~p", N(N(p)), "P"),
        ("p ^ true", X(p, T), "NP"), ("true ^ p", X(T, p), "NP"),
        ("p & false", A(p, F), "F"), ("false & p", A(F, p), "F"), ("p | true", O(p, T), "T"), ("true | p", O(T, p), "T")]


def expected(code, p):
    return {"F": lambda: F, "T": lambda: T, "P": lambda: optimize(p), "NP": lambda: optimize(N(p))}[code]()


def atoms(tier):
    ats = [m() for m in gen.scalar_atom_makers() + gen.set_atom_makers()]
    ats += [PP.is_empty_p, PP.is_not_empty_p, has_length_p(2), has_key_p(1), regex_p("^a"), lazy_p("x"), tee_p(enc.FN_LIB[2][0]),
            NamedPredicate(name="p"), this_p.predicate, root_p.predicate, is_subset_p(set())]
    import predicate.standard_predicates as _SP
    ats += [getattr(_SP, n_) for n_ in ("neg_p", "zero_p", "pos_p", "eq_true_p", "eq_false_p", "is_none_p", "is_not_none_p", "is_falsy_p", "is_truthy_p", "is_int_p",
                                          "is_str_p", "is_bool_p", "is_list_p", "is_callable_p") if hasattr(_SP, n_)]     # the exported named constants themselves
    ats += [m() for m in gen.big_atom_makers()[0]] + [m() for m in gen.big_atom_makers()[1]]      # large sets, huge ints, floats one ulp apart
    # constants outside the model's ordered sort (None, str, bool): judged by the search (the correspondence skips what it cannot encode)
    ats += [PP.EqPredicate(v=None), PP.NePredicate(v=None), in_p(None), not_in_p(None), in_p(None, 1), PP.EqPredicate(v="a"), PP.NePredicate(v="a"),
            in_p("a", "b"), not_in_p("a"), in_p(2, 1), not_in_p(3, 1), in_p(30, 20, 10), not_in_p(5, 4, 3, 2), PP.EqPredicate(v=True), PP.NePredicate(v=False), PP.GePredicate(v="m"), PP.LtPredicate(v="m"),
            PP.EqPredicate(v=(1, 2)), PP.NePredicate(v=2.5)]
    return ats


class AgeAtLeast(PP.GePredicate):
    """a user's own atom: same constant, another meaning (ages are ints)"""

    def __call__(self, x):
        return isinstance(x, int) and not isinstance(x, bool) and x >= self.v


class AtMost(PP.LePredicate):
    def __call__(self, x):
        return isinstance(x, (int, float)) and x <= self.v


class OneOf(PP.Predicate):
    """an atom that is falsy as an OBJECT when it has no members"""

    def __init__(self, members=()):
        self.members = tuple(members)

    def __call__(self, x):
        return x in self.members

    def __len__(self):
        return len(self.members)

    def __eq__(self, other):
        return type(other) is OneOf and other.members == self.members

    def __repr__(self):
        return f"OneOf({self.members!r})"


def user_atoms():
    # (subclasses of the library's OWN atom classes that change __call__, like AgeAtLeast / AtMost above, are not used: negate() and the
    #  rules dispatch on the base class and cannot know the new meaning - on the reviewed tree `p ^ negate(p)` already stays unreduced for them.
    #  A user-defined atom class of its own is an atom like fn_p: the laws must hold for it.)
    return [OneOf(()), OneOf((1, 2)), OneOf((None,))]


def correspondence(payload):
    trees = []
    for p in atoms(payload["tier"]):
        for _name, lhs, _e in laws(p):
            trees.append(lhs)
    return oc.correspondence(trees, "c13", "every atom class of the model x parameter grid (~135 atoms incl. empty/singleton sets, equal bounds, "
                             "class tuples, functions, regex, keys, names, this/root nodes) x the 28 law instances; optimize(law(p)) compared "
                             "structurally with the generated optimizer; distinct = distinct reprs")


def search(payload):
    fails, known_hits, n = [], [], 0
    for p in atoms(payload["tier"]) + user_atoms():
        for name, lhs, code in laws(p):
            n += 1
            try:
                r, e = optimize(lhs), expected(code, p)
            except Exception as ex:  # noqa: BLE001
                fails.append({"p": repr(p), "law": name, "error": f"{type(ex).__name__}: {ex}"})
                continue
            if not (r == e):
                if repr(p) == "is_subset_p(set())" and name == "p & p" and r == F:
                    known_hits.append({"id": 9, "p": repr(lhs)})
                else:
                    fails.append({"p": repr(p), "law": name, "got": repr(r), "expected": repr(e)})
    # HISTORY (history.py): the laws for a few atoms again and again in this process, between other optimize() calls (three-operand
    # conjunctions, calls that raise), and for lazy_p references written twice, before and after the expression has been evaluated
    import copy
    import history
    from predicate.standard_predicates import all_p, any_p, ge_p, gt_p, le_p, is_int_p, is_none_p, is_not_none_p, is_str_p, eq_p, ne_p
    hat = [ge_p(2), le_p(2), is_int_p, is_none_p, eq_p(3), ne_p(0), in_p(1, 2), not_in_p(3), is_str_p, NamedPredicate(name="v"), has_key_p(1), PP.is_empty_p]

    def law_call(a, name):
        def th():
            pa = copy.deepcopy(a)
            lhs, code = next((l_, c_) for nm_, l_, c_ in laws(pa) if nm_ == name)
            r, e = optimize(lhs), expected(code, copy.deepcopy(a))
            return None if r == e else {"p": repr(a), "law": name, "got": repr(r), "expected": repr(e)}
        return th
    names = [nm_ for nm_, _l, _c in laws(hat[0])]
    calls = [(f"optimize({nm_}) with p = {a!r}", law_call(a, nm_)) for a in hat for nm_ in names]
    primers = [is_int_p & ge_p(0) & is_not_none_p, is_int_p & is_not_none_p & gt_p(2), (ge_p(0) | is_none_p) | is_str_p, ge_p(0) & le_p(9) & ne_p(5), ~is_int_p & ~is_none_p & le_p(2)]
    for t in primers:
        calls.append((f"optimize({t!r})  (no verdict: an earlier call of the process)", lambda t=t: (optimize(copy.deepcopy(t)), None)[1]))

    def lazy_law():
        tree = is_int_p | is_str_p        # noqa: F841  (the name the references resolve to)
        bad = []
        for label, mk, want in (("lazy_p('tree') | ~lazy_p('tree')", lambda: lazy_p("tree") | ~lazy_p("tree"), T), ("lazy_p('tree') & ~lazy_p('tree')", lambda: lazy_p("tree") & ~lazy_p("tree"), F),
                                ("lazy_p('tree') ^ lazy_p('tree')", lambda: lazy_p("tree") ^ lazy_p("tree"), F)):
            e = mk()
            before = optimize(e)
            call(e, 1)                       # the expression is evaluated once (its references resolve and remember their frame)
            after = optimize(e)
            if not (before == want) or not (after == want):
                bad.append({"p": label, "law": "two references to one name", "got": f"before evaluation {before!r}, after evaluation {after!r}", "expected": repr(want)})
        return bad[0] if bad else None
    calls.append(("the laws for lazy_p('tree') written twice, before and after the expression was evaluated once", lazy_law))
    poison = [("optimize(ge_p(1) & le_p('a'))  # TypeError", lambda: optimize(ge_p(1) & le_p("a")))] * 80 + \
             [("optimize(all_p(ge_p(1) & le_p('a')))  # TypeError", lambda: optimize(all_p(ge_p(1) & le_p("a"))))] * 80 + \
             [("optimize(~any_p(all_p(is_int_p & (ge_p(1) & le_p('a')))))  # TypeError", lambda: optimize(~any_p(all_p(is_int_p & (ge_p(1) & le_p("a"))))))] * 40
    hn, hfails = history.run(calls, poison=poison, passes=3, seed=int(payload.get("seed", 0)), vetted=True)
    n += hn
    fails = fails + hfails
    return {"evaluations": n, "failures": fails[:5], "known_hits": known_hits, "history_calls": hn, "samples": [{"p": "ge_p(1)", "law": "p ^ true", "expected": "optimize(~p)"}]}


def replay(payload):
    return {"fails": True, "input": payload["replay"].get("input")}


if __name__ == "__main__":
    main({"correspondence": correspondence, "search": search, "replay": replay})
