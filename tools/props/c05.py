"""C05 — implies(p, q) is sound, and exact on the atom pairs it understands.
correspondence: Gen/Implies.v vs predicate.implies.implies on all ordered pairs of an atom grid (+ conjunctions).
search:         soundness on a value domain; completeness on the understood pairs against an exact analytic oracle."""
import itertools

from common import call, enc, eval_codes, gen, main, rng_of
from optcommon import atoms_defined, skey

from predicate import predicate as PP
from predicate.implies import implies
from predicate.set_predicates import InPredicate, NotInPredicate, is_real_subset_p, is_real_superset_p, is_subset_p, is_superset_p


def atoms():
    mk = gen.scalar_atom_makers(consts=[0, 1, 2, 3], with_fn=True) + gen.set_atom_makers()[:12]
    return [m() for m in mk]


def pairs(payload):
    rng = rng_of(payload)
    at = atoms()
    ps = list(itertools.product(range(len(at)), repeat=2))
    if payload["tier"] == "quick":
        ps = rng.sample(ps, 4000)
    out = [(at[i], at[j]) for i, j in ps]
    for _ in range(600):
        a, b, c = rng.choice(at), rng.choice(at), rng.choice(at)
        out.append((PP.AndPredicate(a, b), rng.choice([a, b, c])))
        out.append((rng.choice([a, c]), PP.AndPredicate(a, b)))
    # compound antecedents / consequents over a few comparable atoms: |, &, ~ on either side
    from predicate.standard_predicates import eq_p, ge_p, gt_p, le_p, lt_p
    core = [ge_p(3), ge_p(2), gt_p(2), eq_p(0), eq_p(3), le_p(1), lt_p(3), PP.always_false_p, PP.always_true_p]
    for a, b, c in itertools.product(core, repeat=3):
        if rng.random() < (1.0 if payload["tier"] != "quick" else 0.35):
            out += [(PP.OrPredicate(a, b), c), (c, PP.OrPredicate(a, b)), (PP.AndPredicate(a, b), c), (c, PP.AndPredicate(a, b))]
    for a, b in itertools.product(core, repeat=2):
        out += [(PP.NotPredicate(a), PP.NotPredicate(b)), (PP.NotPredicate(a), b), (a, PP.NotPredicate(b)),
                (PP.NotPredicate(PP.AndPredicate(a, b)), PP.NotPredicate(a)), (a, PP.NotPredicate(PP.AndPredicate(a, b)))]
    # quantified antecedents / consequents (the empty collection separates all from any)
    from predicate.standard_predicates import all_p, any_p
    for a, b in itertools.product(core[:7], repeat=2):
        out += [(all_p(a), all_p(b)), (any_p(a), any_p(b)), (all_p(a), any_p(b)), (any_p(a), all_p(b)), (all_p(a), PP.NotPredicate(any_p(b))),
                (PP.AndPredicate(all_p(a), any_p(b)), any_p(a))]
    return out


def correspondence(payload):
    ps = pairs(payload)
    cx = enc.Ctx()
    items, exp, kept = [], [], []
    for p, q in ps:
        try:
            r = implies(p, q)
        except Exception:  # noqa: BLE001
            continue
        items.append(f"({cx.pred(p)}, {cx.pred(q)})")
        exp.append(1 if r else 0)
        kept.append((p, q))
    codes = eval_codes("c05", "", items, "Definition run (c : pred*pred) : nat := if implies (fst c) (snd c) then 1%nat else 0%nat.", chunk=1000)
    mism = [{"p": repr(kept[i][0]), "q": repr(kept[i][1]), "impl": exp[i], "model": c} for i, c in enumerate(codes) if c != exp[i]]
    return {"evaluations": len(items), "distinct_nontrivial": sum(exp), "true_answers": sum(exp),
            "rule": "ordered pairs of a ~110-atom grid (constants 0..3 in every relative order, sets, types, functions, subset family), sampled in "
                    "the quick tier and complete in the thorough tier, plus conjunction antecedents/consequents; implies(p,q) compared with "
                    "Gen/Implies.v; distinct_nontrivial = pairs on which implies answers True",
            "samples": [{"p": repr(kept[i][0]), "q": repr(kept[i][1]), "implies": bool(exp[i])} for i in range(0, len(kept), max(1, len(kept) // 5))][:5],
            "mismatches": mism[:20]}


VALUES = gen.SCALAR_VALUES + [set(), {1}, {1, 2}, {1, 2, 3}, {2, 3}, {0}, [1], [], (), [2, 3], [0], (3, 4), [1, 5], [2.5]]


def entails_exact(p, q):
    """exact entailment over a dense unbounded order for the pairs implies() understands; None = not such a pair"""
    T = lambda x: type(x).__name__  # noqa: E731
    tp, tq = T(p), T(q)
    if tp in ("GePredicate", "GtPredicate", "EqPredicate") and tq in ("GePredicate", "GtPredicate"):
        a, b = p.v, q.v
        if tp == "GePredicate":
            return a >= b if tq == "GePredicate" else a > b
        if tp == "GtPredicate":
            return a >= b
        return a >= b if tq == "GePredicate" else a > b
    if tp == "EqPredicate" and tq in ("EqPredicate", "NePredicate", "InPredicate", "NotInPredicate"):
        return {"EqPredicate": lambda: p.v == q.v, "NePredicate": lambda: p.v != q.v, "InPredicate": lambda: p.v in q.v,
                "NotInPredicate": lambda: p.v not in q.v}[tq]()
    if tp == "InPredicate" and tq == "InPredicate":
        return p.v <= q.v
    return None


def search(payload):
    ps = pairs({**payload, "tier": "thorough" if payload.get("deep") else payload["tier"]})
    fails, n = [], 0
    for p, q in ps:
        try:
            r = implies(p, q)
        except Exception as e:  # noqa: BLE001
            continue
        ex = entails_exact(p, q)
        if ex is True and not r:
            fails.append({"p": repr(p), "q": repr(q), "p_structure": skey(p), "q_structure": skey(q),
                          "kind": "incomplete on an understood pair: entailment holds but implies() is False"})
        if r:
            for x in VALUES:
                if not (atoms_defined(p, x) and atoms_defined(q, x)):
                    continue
                n += 1
                if call(p, x) == ("ok", True) and call(q, x) != ("ok", True):
                    fails.append({"p": repr(p), "q": repr(q), "p_structure": skey(p), "q_structure": skey(q), "x": repr(x),
                                  "kind": "unsound: implies() is True but x satisfies p and not q"})
                    break
        if len(fails) >= 5:
            break
    # twins (predicates that print alike) asked one after the other in this one process, in both orders: the answer for the
    # first must not be given for the second
    tw = []
    for ma, mb in gen.twin_makers():
        for w in (InPredicate(v={2, 3}), InPredicate(v={"2", "3"}), PP.GePredicate(v=1), PP.GePredicate(v="1"), PP.NePredicate(v=3), PP.IsNotNonePredicate(),
                  PP.LePredicate(v=5), PP.LePredicate(v="5")):
            tw += [(ma(), w), (mb(), w), (w, ma()), (w, mb())]
    values = VALUES + [v for v in gen.TWIN_VALUES if not any(type(v) is type(u) and v == u for u in VALUES)]
    for p, q in tw + tw[::-1]:
        try:
            r = implies(p, q)
        except Exception:  # noqa: BLE001
            continue
        if r:
            for x in values:
                if not (atoms_defined(p, x) and atoms_defined(q, x)):
                    continue
                n += 1
                if call(p, x) == ("ok", True) and call(q, x) != ("ok", True):
                    fails.append({"p": repr(p), "q": repr(q), "p_structure": skey(p), "q_structure": skey(q), "x": repr(x),
                                  "kind": "unsound: implies() is True but x satisfies p and not q (asked after a predicate that prints alike)"})
                    break
        if len(fails) >= 5:
            break
    # the three fixed patterns
    at = atoms()
    for a in at[:40]:
        for b in at[:6]:
            n += 1
            if not implies(PP.always_false_p, a):
                fails.append({"p": "always_false_p", "q": repr(a), "kind": "always_false_p must imply anything"})
            if not (implies(PP.AndPredicate(a, b), a) and implies(PP.AndPredicate(a, b), b)):
                fails.append({"p": repr(PP.AndPredicate(a, b)), "q": repr(a), "kind": "a conjunction must imply its conjuncts"})
    # conjunctions written with the & operator, nested both ways: a conjunction implies each of its own conjuncts
    from predicate.standard_predicates import ge_p as _ge, le_p as _le, ne_p as _ne
    in_range = _ge(0) & _le(10)
    for conj, parts in ((in_range & _ne(5), [in_range, _ne(5)]), (_ne(5) & in_range, [_ne(5), in_range]), ((in_range & _ne(5)) & _ne(7), [in_range & _ne(5), _ne(7)]),
                        (_ne(7) & (in_range & _ne(5)), [_ne(7), in_range & _ne(5)]), (_ge(0) & _le(10) & _ne(5), [_ge(0) & _le(10), _ne(5)])):
        for part in parts:
            n += 1
            if not implies(conj, part):
                fails.append({"p": repr(conj), "q": repr(part), "p_structure": skey(conj), "q_structure": skey(part),
                              "kind": "a conjunction (written with &) must imply its own operands"})
    # beyond the small constants: floats a few ulp apart, integers beyond 2**53, aware datetimes in different zones, long conjunctions
    import datetime as _dt
    from predicate.standard_predicates import eq_p as _eq, gt_p as _gt
    from predicate.set_predicates import in_p as _in, not_in_p as _nin
    tz = lambda h: _dt.timezone(_dt.timedelta(hours=h))  # noqa: E731
    close = [(0.1 + 0.2, 0.3), (1e16, 10 ** 16 + 1), (10 ** 16 + 1, 1e16), (1e10, 1e10 + 1), (2 ** 53, 2 ** 53 + 1), (float(2 ** 53), 2 ** 53 + 1),
             (1e300, 1.0000000000000002e300), (5e-324, 0.0), (-1e-9, 0.0), (1 + 2 ** -52, 1.0), (10 ** 30, 10 ** 30 + 1), (3.0, 3),
             (_dt.datetime(2024, 1, 1, 12, 0, tzinfo=tz(5)), _dt.datetime(2024, 1, 1, 11, 0, tzinfo=tz(0))),
             (_dt.datetime(2024, 1, 1, 11, 0, tzinfo=tz(0)), _dt.datetime(2024, 1, 1, 12, 0, tzinfo=tz(5))),
             (_dt.datetime(2024, 6, 1, 0, 30, tzinfo=tz(-8)), _dt.datetime(2024, 6, 1, 9, 0, tzinfo=tz(1))),
             (_dt.datetime(2024, 1, 1, 12, 0, tzinfo=tz(2)), _dt.datetime(2024, 1, 1, 10, 0, tzinfo=tz(0))),
             (_dt.datetime(2024, 1, 1, 12, 0), _dt.datetime(2024, 1, 1, 12, 0, 0, 1)), ("a" * 40, "a" * 39 + "b")]
    for a, b in close:
        mks = [_ge, _gt, _eq]
        try:
            mid = [a + (b - a) / 2]
        except Exception:  # noqa: BLE001
            mid = []
        xs = [a, b] + mid
        for m1, m2 in itertools.product(mks, [_ge, _gt, _eq, _ne, lambda v: _in(v), lambda v: _nin(v)]):
            for u, v in ((a, b), (b, a)):
                try:
                    pp, qq = m1(u), m2(v)
                    r = implies(pp, qq)
                except Exception:  # noqa: BLE001
                    continue
                n += 1
                ex = entails_exact(pp, qq)
                if ex is True and not r:
                    fails.append({"p": repr(pp), "q": repr(qq), "kind": "incomplete on an understood pair: entailment holds but implies() is False"})
                if r:
                    for x in xs:
                        if call(pp, x) == ("ok", True) and call(qq, x) != ("ok", True):
                            fails.append({"p": repr(pp), "q": repr(qq), "x": repr(x), "kind": "unsound: implies() is True but x satisfies p and not q"})
                            break
    for width in (8, 16, 17, 24, 40):
        def chain(cs):
            t = _ne(cs[0])
            for c in cs[1:]:
                t = t & _ne(c)
            return t
        cs = list(range(1, width + 1))
        for ant, con in ((chain(cs), chain(cs + [0])), (chain(cs), chain(cs[:-1] + [0])), (chain(cs), chain([0] + cs)), (chain(cs + [0]), chain(cs)),
                         (chain(cs), chain(cs[::-1])), (chain(cs), chain(cs[: width // 2] + [-1] + cs[width // 2:]))):
            try:
                r = implies(ant, con)
            except Exception:  # noqa: BLE001
                continue
            n += 1
            if r:
                for x in (0, -1, 1, width, width + 1):
                    if call(ant, x) == ("ok", True) and call(con, x) != ("ok", True):
                        fails.append({"p": f"ne_p(1) & ... & ne_p({width}) [{width} operands]", "q": repr(con)[:200], "x": repr(x), "p_structure": skey(ant),
                                      "q_structure": skey(con), "kind": "unsound: implies() is True but x satisfies p and not q"})
                        break
    # function atoms that distinguish values which are == (1 / True / 1.0): nothing that holds for "the constant" holds for every value equal to it
    from predicate.standard_predicates import fn_p as _fn5
    tsens = [("type(x) is int", lambda x: type(x) is int), ("type(x) is bool", lambda x: type(x) is bool), ("type(x) is float", lambda x: type(x) is float), ("x is True", lambda x: x is True),
             ("repr(x) == '1'", lambda x: repr(x) == "1")]
    for c in (1, True, 1.0, 0, False, 0.0, 2):
        for lbl, f in tsens:
            for ant in (_eq(c), _in(c), _in(c, 7), _eq(c) & _ge(0)):
                n += 1
                try:
                    r = implies(ant, _fn5(f))
                except Exception:  # noqa: BLE001
                    continue
                if r:
                    for x in (1, True, 1.0, 0, False, 0.0, 2, 2.0, 7, 7.0):
                        if call(ant, x) == ("ok", True) and not f(x):
                            fails.append({"p": repr(ant), "p_structure": skey(ant), "q": f"fn_p(lambda x: {lbl})", "x": repr(x), "kind": "unsound: implies() is True but x satisfies p and not q"})
                            break
    # HISTORY (history.py): the same questions asked again and again in this process (fresh objects, several orders), constants whose
    # hashes collide (-1 / -2), the SAME conjunction object asked about each of its operands in turn, ill-typed questions in between
    import datetime as _dt2
    import history
    hx = [-3, -2, -1.5, -1, 0, 1, 2, 2.5, 3, 4, 5, 6, 7, 10]

    def ask(mkp, mkq, want=None):
        def th():
            pp, qq = mkp(), mkq()
            r = implies(pp, qq)
            ex = entails_exact(pp, qq) if want is None else want
            if ex is True and not r:
                return {"p": repr(pp), "q": repr(qq), "kind": "incomplete on an understood pair: entailment holds but implies() is False"}
            if r:
                for x in hx:
                    if call(pp, x) == ("ok", True) and call(qq, x) != ("ok", True):
                        return {"p": repr(pp), "q": repr(qq), "x": repr(x), "kind": "unsound: implies() is True but x satisfies p and not q"}
            return None
        return th
    hcalls = []
    for a, b in itertools.product((-2, -1, 0, 1, 2, 3), repeat=2):
        for (n1, m1), (n2, m2) in itertools.product((("ge_p", _ge), ("gt_p", _gt), ("eq_p", _eq)), (("ge_p", _ge), ("gt_p", _gt), ("eq_p", _eq), ("ne_p", _ne))):
            if (a, b, n1, n2) in {(x_, y_, u_, v_) for x_ in (-2, -1, 3) for y_ in (-2, -1, 2) for u_ in ("ge_p", "gt_p", "eq_p") for v_ in ("ge_p", "gt_p", "ne_p")} or (a + 2 * b) % 5 == 0:
                hcalls.append((f"implies({n1}({a}), {n2}({b}))", ask(lambda m1=m1, a=a: m1(a), lambda m2=m2, b=b: m2(b))))
    both = _ge(2) & _le(5)
    three = (_ge(0) & _le(9)) & _ne(4)
    for lb, cj, parts in (("both = ge_p(2) & le_p(5)", both, [_le(5), _ge(2), _le(5), _ge(2)]), ("three = (ge_p(0) & le_p(9)) & ne_p(4)", three, [_ne(4), _ge(0) & _le(9), _ne(4)])):
        for i, part in enumerate(parts):
            hcalls.append((f"implies({lb.split(' = ')[0]}, {part!r})  [{lb}: ONE object, asked about its operands in turn; question {i + 1}]", ask(lambda cj=cj: cj, lambda part=part: part, want=True)))
    d1, d0 = _dt2.datetime(2024, 1, 1), _dt2.datetime(2023, 1, 1)
    hcalls += [("implies(ge_p(datetime(2024, 1, 1)), ge_p(datetime(2023, 1, 1)))", ask(lambda: _ge(d1), lambda: _ge(d0))), ("implies(ge_p((3, 12, 1)), ge_p((3, 12, 0)))", ask(lambda: _ge((3, 12, 1)), lambda: _ge((3, 12, 0)))),
               ("implies(eq_p('b'), ge_p('a'))", ask(lambda: _eq("b"), lambda: _ge("a")))]
    aware = _dt2.datetime(2024, 1, 1, tzinfo=_dt2.timezone.utc)
    hpoison = [("implies(ge_p(naive datetime), ge_p(aware datetime))  # TypeError", lambda: implies(_ge(d1), _ge(aware))), ("implies(ge_p((3, 12, 'rc1')), ge_p((3, 12, 0)))  # TypeError", lambda: implies(_ge((3, 12, "rc1")), _ge((3, 12, 0)))),
               ("implies(ge_p('a'), ge_p(1))  # TypeError", lambda: implies(_ge("a"), _ge(1))), ("implies(eq_p(None), gt_p(1))  # TypeError", lambda: implies(_eq(None), _gt(1)))]
    hn, hfails = history.run(hcalls, poison=hpoison, passes=4, seed=int(payload.get("seed", 0)), vetted=True)
    n += hn
    fails += hfails
    for s in (set(), {1}, {1, 2}):
        if not (implies(is_real_subset_p(set(s)), is_subset_p(set(s))) and implies(is_real_superset_p(set(s)), is_superset_p(set(s)))):
            fails.append({"p": f"is_real_subset_p({s})", "kind": "real-subset must imply subset over the same set"})
    return {"evaluations": n, "failures": fails[:5], "known_hits": [], "samples": [{"p": repr(ps[0][0]), "q": repr(ps[0][1])}]}


def replay(payload):
    return {"fails": True, "input": payload["replay"].get("input")}


if __name__ == "__main__":
    main({"correspondence": correspondence, "search": search, "replay": replay})
