"""C01 — optimize() preserves the Boolean function of a propositional predicate.
correspondence: Gen/Optimize.v vs predicate.optimize, structurally (operand order included), on ALL propositional trees
                up to a node bound plus seeded deeper trees.
search:         truth tables of p and optimize(p) on the implementation; failures are attributed to known findings
                through the model's taint trace."""
from common import gen, main, rng_of
import optcommon as oc
from predicate import predicate as PP


def full_family():
    """the deterministic input family of C01: every tree up to 6 nodes over p, q, r and the constants"""
    return [t for _, t in gen.all_prop_trees(6, ["p", "q", "r"])], [], True


def trees_for(payload, for_search=False, flags=False):
    rng = rng_of(payload)
    thorough = payload["tier"] == "thorough" or (for_search and payload.get("deep"))
    n, names = (6, ["p", "q", "r"]) if thorough else (5, ["p", "q"])
    trees = [t for _, t in gen.all_prop_trees(n, names)]
    if thorough and len(trees) > 60000:
        trees = trees[:6000] + rng.sample(trees[6000:], 24000)
    n_family = len(trees)
    leaves = gen.prop_leaves(["p", "q", "r", "foo"])
    for _ in range(3000 if thorough else 400):
        trees.append(gen.build(gen.random_shape(rng, len(leaves), rng.choice([3, 4, 5, 6])), leaves))
    leaves2 = gen.prop_leaves(["p", "q"])           # few names: repeated operands (p ^ p, q & q) next to siblings sharing them
    for _ in range(4000 if thorough else 600):
        trees.append(gen.build(gen.random_shape(rng, len(leaves2), rng.choice([3, 3, 4])), leaves2))
    # LONG chains (the exhaustive family stops at 6 nodes): 7-12 operands of one connective, prefix pairs, repeated operands deep in a chain
    from predicate.named_predicate import NamedPredicate as _N
    vs = [_N(name=chr(97 + i)) for i in range(10)]

    def chain(op, items):
        t = items[0]
        for it in items[1:]:
            t = gen.mk(op, t, it)
        return t

    def rchain(op, items):
        t = items[-1]
        for it in reversed(items[:-1]):
            t = gen.mk(op, it, t)
        return t
    for op in ("and", "or", "xor"):
        for k in (7, 9, 10):
            trees += [chain(op, vs[:k]), rchain(op, vs[:k]), chain(op, vs[:k - 1] + [gen.mk("and", vs[0], vs[k - 1])]),
                      chain(op, vs[:k - 1] + [gen.mk("or", vs[1], vs[k - 1])]), gen.mk("not", chain(op, vs[:k]))]
        for k in (8, 9):
            a_, b_ = chain(op, vs[:k]), chain(op, vs[:k + 1])
            trees += [gen.mk("and", a_, b_), gen.mk("and", a_, gen.mk("not", b_)), gen.mk("or", b_, a_), gen.mk("xor", a_, b_), gen.mk("or", gen.mk("not", a_), b_)]
    p_, q_, r_ = vs[0], vs[1], vs[2]
    pqr = chain("xor", [p_, q_, r_])
    trees += [gen.mk("xor", gen.mk("xor", pqr, p_), gen.mk("xor", pqr, q_)), gen.mk("and", gen.mk("xor", pqr, p_), gen.mk("not", gen.mk("xor", chain("xor", [q_, p_, r_]), q_))),
              gen.mk("xor", gen.mk("not", gen.mk("xor", gen.mk("xor", p_, q_), p_)), gen.mk("xor", gen.mk("xor", p_, q_), q_)),
              chain("xor", vs[:4] + [gen.mk("or", vs[0], vs[1]), gen.mk("or", vs[1], vs[2]), gen.mk("or", vs[2], vs[3]), gen.mk("or", vs[0], vs[3]), gen.mk("or", vs[0], vs[2]), gen.mk("or", vs[1], vs[3])]),
              chain("or", vs[:7] + [gen.mk("and", vs[0], vs[7])]), chain("and", vs[:7] + [gen.mk("or", vs[0], vs[7])]),
              chain("or", [gen.mk("not", vs[0])] + vs[1:10])]
    # two connectives under a third, over three names in every arrangement (7 nodes: beyond the exhaustive family): shared operands in each
    # of the four positions, e.g. (q & p) | (r & p)
    import itertools as _it
    three = [_N(name=nm) for nm in "pqr"]
    for o1, o2, o3 in _it.product(("and", "or", "xor"), repeat=3):
        for a_, b_, c_, d_ in _it.product(range(3), repeat=4):
            if len({a_, b_, c_, d_}) >= 2:
                trees.append(gen.mk(o1, gen.mk(o2, _N(name="pqr"[a_]), _N(name="pqr"[b_])), gen.mk(o3, _N(name="pqr"[c_]), _N(name="pqr"[d_]))))
    # terms that PRINT alike (the library's repr has no parentheses) but are different functions, meeting in one rule: A ^ B, A | B, A & ~B ...
    def shapes(leaves_):
        if len(leaves_) == 1:
            yield leaves_[0]
            return
        for i in range(1, len(leaves_)):
            for l_ in shapes(leaves_[:i]):
                for r_ in shapes(leaves_[i:]):
                    for op_ in ("and", "or", "xor"):
                        yield (op_, l_, r_)

    def mk_tree(sp):
        return _N(name=sp) if isinstance(sp, str) else gen.mk(sp[0], mk_tree(sp[1]), mk_tree(sp[2]))
    by_repr = {}
    for sp in shapes(["p", "q", "r", "s"]):
        by_repr.setdefault(repr(mk_tree(sp)), []).append(sp)
    twins = [(a_, b_) for grp in by_repr.values() for i_, a_ in enumerate(grp) for b_ in grp[i_ + 1:]]
    for a_, b_ in twins[:: max(1, len(twins) // (400 if thorough else 120))]:
        trees += [gen.mk("xor", mk_tree(a_), mk_tree(b_)), gen.mk("or", mk_tree(a_), mk_tree(b_)), gen.mk("and", mk_tree(a_), gen.mk("not", mk_tree(b_))),
                  gen.mk("or", gen.mk("not", mk_tree(a_)), mk_tree(b_))]
    # shared sub-terms (the same object used twice) and both operand orders
    a = gen.build(gen.random_shape(rng, len(leaves), 2), leaves)
    trees += [PP.AndPredicate(a, a), PP.OrPredicate(a, PP.NotPredicate(a)), PP.XorPredicate(PP.NotPredicate(a), a)]
    if flags:
        return trees, [i < n_family for i in range(len(trees))]
    return trees


def correspondence(payload):
    trees = trees_for(payload)
    return oc.correspondence(trees, "c01", "all trees over {p,q(,r),true,false,&,|,^,~} up to 5 (quick) / 6 (thorough) nodes, "
                             "plus seeded random trees of depth 3-6 over 4 names and shared-object trees; optimize(p) compared "
                             "structurally with the generated model; distinct = distinct reprs")


def search(payload):
    trees, family = trees_for(payload, for_search=True, flags=True)
    out = oc.search(trees, [], "C01", payload, assignments=True, family=family)
    # the same small formulas as one HISTORY in this process (fresh objects each time, interleaved, repeated, after calls that raise)
    listed = oc.load_listed("C01") or {}
    small = [t for _, t in gen.all_prop_trees(4, ["p", "q"])][:: 3] + [t for _, t in gen.all_prop_trees(5, ["p", "q", "r"])][:: 97]
    small = [t for t in small if oc.skey(t) not in listed][:170]       # the listed failing members are left to the family search above
    # (every call works on a DEEP COPY of its template: also the constants are then other objects than the module's always_true_p / always_false_p)
    n, hfails = oc.history_search("C01", payload, small, [], assignments=True, vetted=True)
    out["evaluations"] += n
    out["history_calls"] = n
    out["failures"] = (out["failures"] + hfails)[:10]
    return out


def replay(payload):
    return oc.replay(payload)


if __name__ == "__main__":
    main({"correspondence": correspondence, "search": search, "replay": replay})
