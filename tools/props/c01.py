"""C01 — optimize() preserves the Boolean function of a propositional predicate.
correspondence: Gen/Optimize.v vs predicate.optimize, structurally (operand order included), on ALL propositional trees
                up to a node bound plus seeded deeper trees.
search:         truth tables of p and optimize(p) on the implementation; failures are attributed to known findings
                through the model's taint trace."""
from common import gen, main, rng_of
import optcommon as oc
from predicate import predicate as PP


def full_family():
    """the deterministic input family of C01: every tree up to 6 nodes over p, q, r and the constants"""
    return [t for _, t in gen.all_prop_trees(6, ["p", "q", "r"])], [], True


def trees_for(payload, for_search=False, flags=False):
    rng = rng_of(payload)
    thorough = payload["tier"] == "thorough" or (for_search and payload.get("deep"))
    n, names = (6, ["p", "q", "r"]) if thorough else (5, ["p", "q"])
    trees = [t for _, t in gen.all_prop_trees(n, names)]
    if thorough and len(trees) > 60000:
        trees = trees[:6000] + rng.sample(trees[6000:], 24000)
    n_family = len(trees)
    leaves = gen.prop_leaves(["p", "q", "r", "foo"])
    for _ in range(3000 if thorough else 400):
        trees.append(gen.build(gen.random_shape(rng, len(leaves), rng.choice([3, 4, 5, 6])), leaves))
    leaves2 = gen.prop_leaves(["p", "q"])           # few names: repeated operands (p ^ p, q & q) next to siblings sharing them
    for _ in range(4000 if thorough else 600):
        trees.append(gen.build(gen.random_shape(rng, len(leaves2), rng.choice([3, 3, 4])), leaves2))
    # shared sub-terms (the same object used twice) and both operand orders
    a = gen.build(gen.random_shape(rng, len(leaves), 2), leaves)
    trees += [PP.AndPredicate(a, a), PP.OrPredicate(a, PP.NotPredicate(a)), PP.XorPredicate(PP.NotPredicate(a), a)]
    if flags:
        return trees, [i < n_family for i in range(len(trees))]
    return trees


def correspondence(payload):
    trees = trees_for(payload)
    return oc.correspondence(trees, "c01", "all trees over {p,q(,r),true,false,&,|,^,~} up to 5 (quick) / 6 (thorough) nodes, "
                             "plus seeded random trees of depth 3-6 over 4 names and shared-object trees; optimize(p) compared "
                             "structurally with the generated model; distinct = distinct reprs")


def search(payload):
    trees, family = trees_for(payload, for_search=True, flags=True)
    return oc.search(trees, [], "C01", payload, assignments=True, family=family)


def replay(payload):
    return oc.replay(payload)


if __name__ == "__main__":
    main({"correspondence": correspondence, "search": search, "replay": replay})
