from collections.abc import Callable
from dataclasses import dataclass

from predicate.predicate import Predicate


@dataclass
class TeePredicate[T](Predicate[T]):
    """A predicate class that captures a side effect, and always returns True."""

    fn: Callable[[T], None]

    def __call__(self, x: T) -> bool:
        self.fn(x)
        return True

    def __repr__(self) -> str:
        return "tee_p"
