from dataclasses import dataclass
from typing import Iterable

from predicate.predicate import Predicate


@dataclass
class IsSubsetPredicate[T](Predicate[T]):
    """A predicate class that models the 'subset' predicate."""

    v: set[T]

    def __call__(self, v: set[T]) -> bool:
        return v <= self.v

    def __repr__(self) -> str:
        return f"is_subset_p({self.v})"


@dataclass
class IsRealSubsetPredicate[T](Predicate[T]):
    """A predicate class that models the 'real subset' predicate."""

    v: set[T]

    def __call__(self, v: set[T]) -> bool:
        return v < self.v

    def __repr__(self) -> str:
        return f"is_real_subset_p({self.v})"


@dataclass
class IsSupersetPredicate[T](Predicate[T]):
    """A predicate class that models the 'superset' predicate."""

    v: set[T]

    def __call__(self, v: set[T]) -> bool:
        return v >= self.v

    def __repr__(self) -> str:
        return f"is_superset_p({self.v})"


@dataclass
class IsRealSupersetPredicate[T](Predicate[T]):
    """A predicate class that models the 'real superset' predicate."""

    v: set[T]

    def __call__(self, v: set[T]) -> bool:
        return v > self.v

    def __repr__(self) -> str:
        return f"is_real_superset_p({self.v})"


@dataclass
class InPredicate[T](Predicate[T]):
    """A predicate class that models the 'in' predicate."""

    v: set[T]

    def __init__(self, v: Iterable[T]):
        self.v = set(v)

    def __call__(self, x: T) -> bool:
        return x in self.v

    def __repr__(self) -> str:
        items = ", ".join(str(item) for item in self.v)
        return f"in_p({items})"


@dataclass
class NotInPredicate[T](Predicate[T]):
    """A predicate class that models the 'not in' predicate."""

    v: set[T]

    def __init__(self, v: Iterable[T]):
        self.v = set(v)

    def __call__(self, x: T) -> bool:
        return x not in self.v

    def __repr__(self) -> str:
        items = ", ".join(str(item) for item in self.v)
        return f"not_in_p({items})"


def is_subset_p[T](v: set[T]) -> IsSubsetPredicate[T]:
    """Return True if the value is a subset, otherwise False."""
    return IsSubsetPredicate(v)


def is_real_subset_p[T](v: set[T]) -> IsRealSubsetPredicate[T]:
    """Return True if the value is a real subset, otherwise False."""
    return IsRealSubsetPredicate(v)


def is_superset_p[T](v: set[T]) -> IsSupersetPredicate[T]:
    """Return True if the value is a superset, otherwise False."""
    return IsSupersetPredicate(v)


def is_real_superset_p[T](v: set[T]) -> IsRealSupersetPredicate[T]:
    """Return True if the value is a real superset, otherwise False."""
    return IsRealSupersetPredicate(v)


def in_p[T](*v: T) -> InPredicate[T]:
    """Return True if the values are included in the set, otherwise False."""
    return InPredicate(v=v)


def not_in_p[T](*v: T) -> NotInPredicate[T]:
    """Return True if the values are not in the set, otherwise False."""
    return NotInPredicate(v=v)
