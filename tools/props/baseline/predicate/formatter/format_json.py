from typing import Any

from predicate.all_predicate import AllPredicate
from predicate.any_predicate import AnyPredicate
from predicate.named_predicate import NamedPredicate
from predicate.predicate import (
    AlwaysFalsePredicate,
    AlwaysTruePredicate,
    AndPredicate,
    FnPredicate,
    IsFalsyPredicate,
    IsTruthyPredicate,
    NePredicate,
    NotPredicate,
    OrPredicate,
    Predicate,
    XorPredicate,
)
from predicate.tee_predicate import TeePredicate


def to_json(predicate: Predicate) -> dict[str, Any]:
    """Format predicate as json."""

    def to_value(predicate) -> tuple[str, Any]:
        match predicate:
            case AllPredicate(all_predicate):
                return "all", {"predicate": to_json(all_predicate)}
            case AlwaysFalsePredicate():
                return "false", False
            case AlwaysTruePredicate():
                return "true", True
            case AndPredicate(left, right):
                return "and", {"left": to_json(left), "right": to_json(right)}
            case AnyPredicate(any_predicate):
                return "any", {"predicate": to_json(any_predicate)}
            case FnPredicate(predicate_fn):
                name = getattr(predicate_fn, "__name__", type(predicate_fn).__name__)
                return "fn", {"name": name}
            case IsFalsyPredicate():
                return "is_falsy", None
            case NamedPredicate(name):
                return "variable", name
            case IsTruthyPredicate():
                return "is_truthy", None
            case NePredicate(v):
                return "ne", {"v": v}
            case NotPredicate(not_predicate):
                return "not", {"predicate": to_json(not_predicate)}
            case OrPredicate(left, right):
                return "or", {"left": to_json(left), "right": to_json(right)}
            case TeePredicate():
                return "tee", None
            case XorPredicate(left, right):
                return "xor", {"left": to_json(left), "right": to_json(right)}
            case _:
                return "unknown", {}

    return dict([to_value(predicate)])
