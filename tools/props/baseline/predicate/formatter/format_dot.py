import inspect
from functools import partial
from itertools import count

import graphviz  # type: ignore
from more_itertools import first

from predicate.all_predicate import AllPredicate
from predicate.any_predicate import AnyPredicate
from predicate.comp_predicate import CompPredicate
from predicate.dict_of_predicate import DictOfPredicate
from predicate.is_instance_predicate import IsInstancePredicate
from predicate.lazy_predicate import LazyPredicate, find_predicate_by_ref
from predicate.named_predicate import NamedPredicate
from predicate.optimizer.predicate_optimizer import optimize
from predicate.predicate import (
    AlwaysFalsePredicate,
    AlwaysTruePredicate,
    AndPredicate,
    IsFalsyPredicate,
    IsTruthyPredicate,
    NotPredicate,
    OrPredicate,
    Predicate,
    XorPredicate,
)
from predicate.range_predicate import GeLePredicate, GeLtPredicate, GtLePredicate, GtLtPredicate
from predicate.root_predicate import RootPredicate, find_root_predicate
from predicate.set_predicates import (
    InPredicate,
    IsRealSubsetPredicate,
    IsRealSupersetPredicate,
    IsSubsetPredicate,
    IsSupersetPredicate,
    NotInPredicate,
)
from predicate.standard_predicates import (
    EqPredicate,
    FnPredicate,
    GePredicate,
    GtPredicate,
    IsNonePredicate,
    LePredicate,
    LtPredicate,
    NePredicate,
)
from predicate.tee_predicate import TeePredicate
from predicate.this_predicate import ThisPredicate, find_this_predicate


def to_dot(predicate: Predicate, predicate_string: str = "", show_optimized: bool = False):
    """Format predicate as a .dot file."""
    graph_attr = {"label": predicate_string, "labelloc": "t"}

    node_attr = {"shape": "rectangle", "style": "filled", "fillcolor": "#B7D7A8"}

    edge_attr: dict = {}

    dot = graphviz.Digraph(graph_attr=graph_attr, node_attr=node_attr, edge_attr=edge_attr)

    node_nr = count()

    render_original(dot, predicate, node_nr)

    if show_optimized:
        render_optimized(dot, predicate, node_nr)

    return dot


def set_to_str(v: set) -> str:
    # TODO: truncate if too many items.
    items = ", ".join(str(item) for item in v)
    return f"{{{items}}}"


def render(dot, predicate: Predicate, node_nr):
    node_predicate_mapping: dict[str, Predicate] = {}

    def _add_node(name: str, *, label: str, predicate: Predicate | None) -> str:
        node = next(node_nr)
        unique_name = f"{name}_{node}"
        dot.node(unique_name, label=label)
        if predicate:
            node_predicate_mapping[unique_name] = predicate
        return unique_name

    def _add_node_left_right(name: str, *, label: str, predicate: Predicate, left: Predicate, right: Predicate) -> str:
        node = _add_node(name, label=label, predicate=predicate)
        dot.edge(node, to_value(left))
        dot.edge(node, to_value(right))

        return node

    def _add_node_with_child(name: str, *, label: str, predicate: Predicate, child: Predicate) -> str:
        node = _add_node(name, label=label, predicate=predicate)
        dot.edge(node, to_value(child))
        return node

    def to_value(predicate: Predicate):
        add_node = partial(_add_node, predicate=predicate)
        add_node_left_right = partial(_add_node_left_right, predicate=predicate)
        add_node_with_child = partial(_add_node_with_child, predicate=predicate)

        match predicate:
            case AllPredicate(all_predicate):
                return add_node_with_child("all", label="∀", child=all_predicate)
            case AlwaysFalsePredicate():
                return add_node("F", label="false")
            case AlwaysTruePredicate():
                return add_node("T", label="true")
            case AndPredicate(left, right):
                return add_node_left_right("and", label="∧", left=left, right=right)
            case AnyPredicate(any_predicate):
                return add_node_with_child("any", label="∃", child=any_predicate)
            case CompPredicate(_fn, comp_predicate):
                return add_node_with_child("comp", label="f", child=comp_predicate)
            case EqPredicate(v):
                return add_node("eq", label=f"x = {v}")
            case IsFalsyPredicate():
                return add_node("falsy", label="falsy")
            case IsTruthyPredicate():
                return add_node("truthy", label="truthy")
            case FnPredicate(predicate_fn):
                name = getattr(predicate_fn, "__name__", type(predicate_fn).__name__)
                return add_node("fn", label=f"fn: {name}")
            case GePredicate(v):
                return add_node("ge", label=f"x ≥ {v}")
            case GeLePredicate(lower, upper):
                return add_node("gele", label=f"{lower} ≤ x ≤ {upper}")
            case GeLtPredicate(lower, upper):
                return add_node("gelt", label=f"{lower} ≤ x < {upper}")
            case GtPredicate(v):
                return add_node("gt", label=f"x > {v}")
            case GtLePredicate(lower, upper):
                return add_node("gtle", label=f"{lower} < x ≤ {upper}")
            case GtLtPredicate(lower, upper):
                return add_node("gtlt", label=f"{lower} < x < {upper}")
            case InPredicate(v):
                return add_node("in", label=f"x ∈ {set_to_str(v)}")
            case DictOfPredicate(key_value_predicates):
                node = add_node("dict_of", label="is_dict_of")
                for key, value in key_value_predicates:
                    kv = _add_node("kv", label="kv", predicate=None)
                    dot.edge(node, kv)
                    dot.edge(kv, to_value(key), label="key")
                    dot.edge(kv, to_value(value), label="value")
                return node
            case IsInstancePredicate(klass):
                name = klass[0].__name__  # type: ignore
                return add_node("instance", label=f"is_{name}_p")
            case IsNonePredicate():
                return add_node("none", label="x = None")
            case IsRealSubsetPredicate(v):
                return add_node("real_subset", label=f"x ⊂ {set_to_str(v)}")
            case IsSubsetPredicate(v):
                return add_node("subset", label=f"x ⊆ {set_to_str(v)}")
            case IsRealSupersetPredicate(v):
                return add_node("real_superset", label=f"x ⊃ {set_to_str(v)}")
            case IsSupersetPredicate(v):
                return add_node("superset", label=f"x ⊇ {set_to_str(v)}")
            case LazyPredicate(ref):
                return add_node("lazy", label=ref)
            case LePredicate(v):
                return add_node("le", label=f"x ≤ {v}")
            case LtPredicate(v):
                return add_node("lt", label=f"x < {v}")
            case NamedPredicate(name):
                return add_node("named", label=name)
            case NotInPredicate(v):
                return add_node("in", label=f"x ∉ {set_to_str(v)}")
            case NePredicate(v):
                return add_node("ne", label=f"x ≠ {v}")
            case NotPredicate(not_predicate):
                return add_node_with_child("not", label="¬", child=not_predicate)
            case OrPredicate(left, right):
                return add_node_left_right("or", label="∨", left=left, right=right)
            case RootPredicate():
                return add_node("root", label="root")
            case TeePredicate():
                return add_node("tee", label="tee")
            case ThisPredicate():
                return add_node("this", label="this")
            case XorPredicate(left, right):
                return add_node_left_right("xor", label="⊻", left=left, right=right)
            case _:
                raise ValueError(f"Unknown predicate type {predicate}")

    to_value(predicate)

    render_lazy_references(dot, node_predicate_mapping)


def render_lazy_references(dot, node_predicate_mapping) -> None:
    def find_in_mapping(lookup: Predicate) -> str | None:
        return first((node for node, predicate in node_predicate_mapping.items() if predicate == lookup), None)

    def add_dashed_line(node: str, lookup: Predicate) -> None:
        # the referenced predicate may lie outside the rendered tree (e.g. in the other cluster): no edge then
        if found := find_in_mapping(lookup):
            dot.edge(node, found, style="dashed")

    frame = inspect.currentframe()

    for node, predicate in node_predicate_mapping.items():
        match predicate:
            case LazyPredicate():
                if reference := find_predicate_by_ref(frame, predicate.ref):
                    add_dashed_line(node, reference)
            case RootPredicate():
                if root := find_root_predicate(frame, predicate):
                    add_dashed_line(node, root)
            case ThisPredicate():
                if this := find_this_predicate(frame, predicate):
                    add_dashed_line(node, this)


def render_original(dot, predicate: Predicate, node_nr) -> None:
    with dot.subgraph(name="cluster_original") as original:
        original.attr(style="filled", color="lightgrey")
        original.attr(label="Original predicate")
        render(original, predicate, node_nr)


def render_optimized(dot, predicate: Predicate, node_nr) -> None:
    optimized_predicate = optimize(predicate)

    with dot.subgraph(name="cluster_optimized") as optimized:
        optimized.attr(style="filled", color="lightgrey")
        optimized.attr(label="Optimized predicate")
        render(optimized, optimized_predicate, node_nr)
