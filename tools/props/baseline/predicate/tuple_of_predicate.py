from dataclasses import dataclass

from more_itertools import ilen

from predicate.predicate import Predicate


@dataclass
class TupleOfPredicate[T](Predicate[T]):
    """A predicate class that models the tuple_of predicate."""

    predicates: list[Predicate]

    def __call__(self, x: tuple) -> bool:
        return ilen(x) == len(self.predicates) and all(p(v) for p, v in zip(self.predicates, x, strict=False))

    def __repr__(self) -> str:
        predicates_repr = ", ".join(repr(predicate) for predicate in self.predicates)
        return f"is_tuple_of_p({predicates_repr})"
