from dataclasses import dataclass

from predicate.predicate import ConstrainedT, Predicate


@dataclass
class GeLePredicate[T](Predicate[T]):
    """A predicate class that models the 'lower <= x <= upper' predicate."""

    lower: ConstrainedT
    upper: ConstrainedT

    def __call__(self, x: T) -> bool:
        return self.lower <= x <= self.upper

    def __repr__(self) -> str:
        return f"ge_le_p({self.lower}, {self.upper})"


@dataclass
class GeLtPredicate[T](Predicate[T]):
    """A predicate class that models the 'lower <= x < upper' predicate."""

    lower: ConstrainedT
    upper: ConstrainedT

    def __call__(self, x: T) -> bool:
        return self.lower <= x < self.upper

    def __repr__(self) -> str:
        return f"ge_lt_p({self.lower}, {self.upper})"


@dataclass
class GtLePredicate[T](Predicate[T]):
    """A predicate class that models the 'lower < x <= upper' predicate."""

    lower: ConstrainedT
    upper: ConstrainedT

    def __call__(self, x: T) -> bool:
        return self.lower < x <= self.upper

    def __repr__(self) -> str:
        return f"gt_le_p({self.lower}, {self.upper})"


@dataclass
class GtLtPredicate[T](Predicate[T]):
    """A predicate class that models the 'lower < x < upper' predicate."""

    lower: ConstrainedT
    upper: ConstrainedT

    def __call__(self, x: T) -> bool:
        return self.lower < x < self.upper

    def __repr__(self) -> str:
        return f"gt_lt_p({self.lower}, {self.upper})"
