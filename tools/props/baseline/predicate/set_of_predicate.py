from dataclasses import dataclass

from predicate.predicate import Predicate


@dataclass
class SetOfPredicate[T](Predicate[T]):
    """A predicate class that models the set_of predicate."""

    predicate: Predicate

    def __call__(self, x: set[T]) -> bool:
        return all(self.predicate(item) for item in x)

    def __repr__(self) -> str:
        return f"is_set_of_p({repr(self.predicate)})"
