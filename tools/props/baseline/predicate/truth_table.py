from collections.abc import Iterable, Iterator
from itertools import repeat

from more_itertools import gray_product

from predicate import AlwaysFalsePredicate, AlwaysTruePredicate, AndPredicate, NotPredicate, Predicate
from predicate.named_predicate import NamedPredicate
from predicate.predicate import OrPredicate, XorPredicate


def truth_table(predicate: Predicate) -> Iterable[tuple]:
    """Generate a truth table."""
    named_predicates = get_named_predicates(predicate)

    tuples = repeat((False, True), len(named_predicates))

    combinations = sorted(gray_product(*tuples))

    for combination in combinations:
        values = dict(zip(named_predicates, combination, strict=False))
        yield combination, execute_predicate(predicate, values=values)


def get_named_predicates(predicate: Predicate) -> list[str]:
    """Return the names used in the predicate."""

    def get_names() -> Iterator[str]:
        match predicate:
            case AndPredicate(left, right) | OrPredicate(left, right) | XorPredicate(left, right):
                yield from get_named_predicates(left)
                yield from get_named_predicates(right)
            case NotPredicate(not_predicate):
                yield from get_named_predicates(not_predicate)
            case NamedPredicate() as named:
                yield named.name
            case AlwaysFalsePredicate() | AlwaysTruePredicate():
                pass
            case _:
                raise ValueError(f"Type not allowed: {predicate}")

    return sorted(set(get_names()))


def execute_predicate(predicate: Predicate, values: dict) -> bool:
    set_named_values(predicate, values)

    dummy = False
    return predicate(dummy)


def set_named_values(predicate: Predicate, values: dict) -> None:
    """Set the named predicate values."""
    match predicate:
        case AndPredicate(left, right) | OrPredicate(left, right) | XorPredicate(left, right):
            set_named_values(left, values)
            set_named_values(right, values)
        case NotPredicate(not_predicate):
            set_named_values(not_predicate, values)
        case NamedPredicate() as named:
            named.v = values[named.name]
        case AlwaysFalsePredicate() | AlwaysTruePredicate():
            pass
        case _:
            raise ValueError(f"Type not allowed: {predicate}")
