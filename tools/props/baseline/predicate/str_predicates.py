from collections.abc import Callable

from predicate.predicate import FnPredicate, Predicate
from predicate.standard_predicates import fn_p


def create_is_str_p(fn: Callable) -> Predicate[str]:
    return fn_p(fn=fn)


is_alnum_p = create_is_str_p(str.isalnum)
"""Return True if all characters in the string are alphanumeric and there is at least one character, False otherwise."""

is_alpha_p = create_is_str_p(str.isalpha)
"""Return True if all characters in the string are alphabetic and there is at least one character, False otherwise."""

is_ascii_p = create_is_str_p(str.isascii)
"""Return True if the string is empty or all characters in the string are ASCII, False otherwise."""

is_decimal_p = create_is_str_p(str.isdecimal)
"""Return True if all characters in the string are decimal characters and there is at least one character, False otherwise."""

is_digit_p = create_is_str_p(str.isdigit)
"""Return True if all characters in the string are digits and there is at least one character, False otherwise."""

is_identifier_p = create_is_str_p(str.isidentifier)
"""Return True if the string is a valid identifier according to the language definition, False otherwise."""

is_lower_p = create_is_str_p(str.islower)
"""Return True if all cased characters in the string are lowercase and there is at least one cased character, False otherwise."""

is_numeric_p = create_is_str_p(str.isnumeric)
"""Return True if all characters in the string are numeric characters, and there is at least one character, False otherwise."""

is_printable_p = create_is_str_p(str.isprintable)
"""Return True if all characters in the string are printable or the string is empty, False otherwise."""

is_space_p = create_is_str_p(str.isspace)
"""Return True if there are only whitespace characters in the string and there is at least one character, False otherwise."""

is_title_p = create_is_str_p(str.istitle)
"""Return True if the string is a titlecased string and there is at least one character, False otherwise."""

is_upper_p = create_is_str_p(str.isupper)
"""Return True if all cased characters in the string are uppercase and there is at least one cased character, False otherwise."""


def starts_with_p(prefix: str) -> Predicate[str]:
    """Return True if the string starts with the specified prefix, False otherwise."""
    return FnPredicate(lambda x: x.startswith(prefix))


def ends_with_p(suffix: str) -> Predicate[str]:
    """Return True if the string ends with the specified suffix, False otherwise."""
    return FnPredicate(lambda x: x.endswith(suffix))
