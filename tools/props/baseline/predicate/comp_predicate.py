from dataclasses import dataclass
from typing import Callable

from predicate.predicate import Predicate


@dataclass
class CompPredicate[S, T](Predicate[T]):
    """A predicate class that transforms the input according to a function and then evaluates the predicate."""

    fn: Callable[[S], T]
    predicate: Predicate[T]

    def __call__(self, x: S) -> bool:
        return self.predicate(self.fn(x))

    def __repr__(self) -> str:
        return f"comp_p({repr(self.predicate)})"
