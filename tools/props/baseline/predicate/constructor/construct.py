from typing import Iterator

from more_itertools import gray_product

from predicate import is_datetime_p, is_falsy_p, is_float_p, is_int_p, is_not_none_p, is_set_p, is_str_p, is_truthy_p
from predicate.predicate import Predicate, always_false_p, always_true_p
from predicate.standard_predicates import all_p, is_bool_p, is_dict_p, is_list_p, is_none_p

# TODO: this is very much work under construction (pun intended) and not ready for public consumption


def construct(false_set: list, true_set: list) -> Iterator[Predicate]:
    predicates = list(initial_predicates())

    while True:
        for predicate in predicates:
            all_true = all_p(predicate)
            all_false = all_p(~predicate)
            if all_true(true_set) and all_false(false_set):
                yield predicate

        predicates = list(create_mutations(predicates))


def create_mutations(candidates: list[Predicate]) -> Iterator[Predicate]:
    pairs = gray_product(candidates, candidates)
    for pair in pairs:
        left, right = pair
        if left != right:
            yield left | right
            yield left & right


def initial_predicates() -> Iterator[Predicate]:
    # TODO: probably import from __init__
    yield always_false_p
    yield always_true_p
    yield is_bool_p
    yield is_datetime_p
    yield is_dict_p
    yield is_falsy_p
    yield is_float_p
    yield is_int_p
    yield is_list_p
    yield is_none_p
    yield is_not_none_p
    yield is_set_p
    yield is_str_p
    yield is_truthy_p
