from dataclasses import dataclass

from predicate.predicate import Predicate


@dataclass
class NamedPredicate(Predicate):
    """A predicate class to generate_true truth tables."""

    name: str
    v: bool = False

    def __call__(self, *args) -> bool:
        return self.v

    def __repr__(self) -> str:
        return self.name
