from dataclasses import dataclass
from typing import Iterable

from predicate.predicate import Predicate


@dataclass
class AllPredicate[T](Predicate[T]):
    """A predicate class that models the 'all' predicate."""

    predicate: Predicate[T]

    def __call__(self, iterable: Iterable[T]) -> bool:
        return all(self.predicate(x) for x in iterable)

    def __repr__(self) -> str:
        return f"all({repr(self.predicate)})"
