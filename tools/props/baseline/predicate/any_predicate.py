from dataclasses import dataclass
from typing import Iterable

from predicate.predicate import Predicate


@dataclass
class AnyPredicate[T](Predicate[T]):
    """A predicate class that models the 'any' predicate."""

    predicate: Predicate[T]

    def __call__(self, iterable: Iterable[T]) -> bool:
        return any(self.predicate(x) for x in iterable)

    def __repr__(self) -> str:
        return f"any({repr(self.predicate)})"
