import inspect
from dataclasses import dataclass
from functools import cached_property

from predicate.all_predicate import AllPredicate
from predicate.comp_predicate import CompPredicate
from predicate.predicate import AndPredicate, OrPredicate, Predicate


@dataclass
class ThisPredicate[T](Predicate[T]):
    """A predicate class that lazily references another predicate."""

    @cached_property
    def this_predicate(self) -> Predicate | None:
        return find_this_predicate(self.frame, self)

    def __call__(self, x: T) -> bool:
        self.frame = inspect.currentframe()
        if self.this_predicate:
            return self.this_predicate(x)
        raise ValueError(f"Could not find 'this' predicate {self}")

    def __eq__(self, other: object) -> bool:
        # Each reference is its own node: two references are equal only if they are the same object.
        return self is other

    def __repr__(self) -> str:
        return "this_p"


def find_this_predicate(frame, predicate: Predicate) -> Predicate | None:
    if is_library_frame(frame):
        return find_this_predicate(frame.f_back, predicate) if frame.f_back else None
    for key, value in frame.f_locals.items():
        if isinstance(value, Predicate) and value != predicate and key != "self":
            if predicate_in_predicate_tree(value, predicate):
                return value
    if next_frame := frame.f_back:
        return find_this_predicate(next_frame, predicate)
    return None


def is_library_frame(frame) -> bool:
    """Return True for a frame that runs the library's own code: its locals (loop variables) never define a user's predicate."""
    return frame.f_globals.get("__name__", "").startswith("predicate.")


def predicate_in_predicate_tree(tree: Predicate, predicate: Predicate) -> bool:
    from predicate.standard_predicates import PredicateFactory

    match tree:
        case AllPredicate(all_predicate):
            return predicate_in_predicate_tree(all_predicate, predicate)
        case AndPredicate(and_left, and_right):
            return predicate_in_predicate_tree(and_left, predicate) or predicate_in_predicate_tree(and_right, predicate)
        case CompPredicate(_, comp_predicate):
            return predicate_in_predicate_tree(comp_predicate, predicate)
        case OrPredicate(or_left, or_right):
            return predicate_in_predicate_tree(or_left, predicate) or predicate_in_predicate_tree(or_right, predicate)
        case PredicateFactory() as factory:
            return factory.predicate == predicate
        case _ if tree == predicate:
            return True
        case _:
            return False
