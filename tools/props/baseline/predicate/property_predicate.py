from dataclasses import dataclass
from typing import Callable

from predicate import Predicate


@dataclass
class PropertyPredicate[T](Predicate[T]):
    """A predicate class that wraps a boolean property."""

    getter: property

    def __init__(self, getter: Callable):
        self.getter = getter

    def __call__(self, obj: T) -> bool:
        return self.getter.fget(obj)  # type: ignore

    def __repr__(self) -> str:
        return "property_p"
