import inspect
from dataclasses import dataclass
from functools import cached_property

from predicate.predicate import Predicate
from predicate.this_predicate import is_library_frame


@dataclass
class LazyPredicate[T](Predicate[T]):
    """A predicate class that lazily references another predicate by name."""

    ref: str

    @cached_property
    def predicate(self) -> Predicate | None:
        found = find_predicate_by_ref(self.frame, self.ref)
        if found is None:
            # not on the call stack: look in the namespace of the module that wrote lazy_p(ref)
            found = (getattr(self, "scope", None) or {}).get(self.ref)
        return found

    def __call__(self, x: T) -> bool:
        self.frame = inspect.currentframe()
        if self.predicate:
            return self.predicate(x)
        raise ValueError(f"Could not find predicate with reference {self.ref}")

    def __repr__(self) -> str:
        return f'lazy_p("{self.ref}")'


def find_predicate_by_ref(frame, ref: str) -> Predicate | None:
    if is_library_frame(frame):
        return find_predicate_by_ref(frame.f_back, ref) if frame.f_back else None
    for key, value in frame.f_locals.items():
        if key == ref and key != "self" and isinstance(value, Predicate):
            return value
    if next_frame := frame.f_back:
        return find_predicate_by_ref(next_frame, ref)
    return None
