from functools import singledispatch

from predicate import (
    AlwaysFalsePredicate,
    AlwaysTruePredicate,
    EqPredicate,
    GePredicate,
    GtPredicate,
    InPredicate,
    IsEmptyPredicate,
    IsNonePredicate,
    IsNotNonePredicate,
    LePredicate,
    LtPredicate,
    NePredicate,
    NotInPredicate,
    NotPredicate,
    Predicate,
    always_false_p,
    always_true_p,
    is_empty_p,
    is_none_p,
    is_not_none_p,
)
from predicate.predicate import IsFalsyPredicate, IsNotEmptyPredicate, IsTruthyPredicate, is_not_empty_p
from predicate.standard_predicates import is_falsy_p, is_truthy_p


@singledispatch
def negate[T](predicate: Predicate[T]) -> Predicate[T]:
    """Return the negation of a predicate."""
    return NotPredicate(predicate=predicate)


@negate.register
def negate_is_not(predicate: NotPredicate) -> Predicate:
    return predicate.predicate


@negate.register
def negate_is_false(_predicate: AlwaysFalsePredicate) -> Predicate:
    return always_true_p


@negate.register
def negate_is_true(_predicate: AlwaysTruePredicate) -> Predicate:
    return always_false_p


@negate.register
def negate_is_falsy(_predicate: IsFalsyPredicate) -> Predicate:
    return is_truthy_p


@negate.register
def negate_is_truthy(_predicate: IsTruthyPredicate) -> Predicate:
    return is_falsy_p


@negate.register
def negate_eq(predicate: EqPredicate) -> Predicate:
    return NePredicate(v=predicate.v)


@negate.register
def negate_ne(predicate: NePredicate) -> Predicate:
    return EqPredicate(v=predicate.v)


@negate.register
def negate_gt(predicate: GtPredicate) -> Predicate:
    return LePredicate(v=predicate.v)


@negate.register
def negate_ge(predicate: GePredicate) -> Predicate:
    return LtPredicate(v=predicate.v)


@negate.register
def negate_in(predicate: InPredicate) -> Predicate:
    return NotInPredicate(v=predicate.v)


@negate.register
def negate_not_in(predicate: NotInPredicate) -> Predicate:
    return InPredicate(v=predicate.v)


@negate.register
def negate_lt(predicate: LtPredicate) -> Predicate:
    return GePredicate(v=predicate.v)


@negate.register
def negate_le(predicate: LePredicate) -> Predicate:
    return GtPredicate(v=predicate.v)


@negate.register
def negate_is_none(_predicate: IsNonePredicate) -> Predicate:
    return is_not_none_p


@negate.register
def negate_is_not_none(_predicate: IsNotNonePredicate) -> Predicate:
    return is_none_p


@negate.register
def negate_is_empty(_predicate: IsEmptyPredicate) -> Predicate:
    return is_not_empty_p


@negate.register
def negate_is_not_empty(_predicate: IsNotEmptyPredicate) -> Predicate:
    return is_empty_p
