from dataclasses import dataclass

from predicate.predicate import Predicate


@dataclass
class IsInstancePredicate[T](Predicate[T]):
    """A predicate class that models the 'isinstance' predicate."""

    klass: type | tuple

    def __call__(self, x: object) -> bool:
        return isinstance(x, self.klass)

    def __repr__(self) -> str:
        name = self.klass[0].__name__  # type: ignore
        return f"is_{name}_p"
