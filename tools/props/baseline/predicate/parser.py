from lark import Lark, Transformer, UnexpectedEOF  # type: ignore

from predicate import NotPredicate, Predicate, XorPredicate, always_false_p
from predicate.named_predicate import NamedPredicate
from predicate.predicate import AndPredicate, OrPredicate, always_true_p

grammar = Lark(
    """
    predicate: expression | variable

    variable: WORD
    ?expression: grouped_expression | or_expression | and_expression | xor_expression | not_expression | false | true

    false: "false"
    true: "true"
    grouped_expression: "(" predicate ")"
    or_expression: predicate "|" predicate
    and_expression: predicate "&" predicate
    xor_expression: predicate "^" predicate
    not_expression: "~" predicate

    %import common.WORD   // imports from terminal library
    %ignore " "           // Disregard spaces in text
""",
    start="predicate",
)


class _PredicateTransformer(Transformer):
    def predicate(self, item) -> Predicate:
        return item[0]

    def and_expression(self, items):
        left, right = items
        return AndPredicate(left=left, right=right)

    def false(self, _item) -> Predicate:
        return always_false_p

    def grouped_expression(self, item):
        return item[0]

    def not_expression(self, item) -> Predicate:
        return NotPredicate(predicate=item[0])

    def or_expression(self, items) -> Predicate:
        left, right = items
        return OrPredicate(left=left, right=right)

    def true(self, _item) -> Predicate:
        return always_true_p

    def variable(self, item) -> Predicate:
        return NamedPredicate(name=str(item[0]))

    def xor_expression(self, items) -> Predicate:
        left, right = items
        return XorPredicate(left=left, right=right)

    pass


def parse_expression(expression: str) -> Predicate | None:
    try:
        predicate_tree = grammar.parse(expression)
    except UnexpectedEOF:
        return None

    return _PredicateTransformer().transform(predicate_tree)
