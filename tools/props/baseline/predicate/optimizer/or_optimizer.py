from predicate.any_predicate import AnyPredicate
from predicate.optimizer.in_optimizer import optimize_in_predicate, optimize_not_in_predicate
from predicate.predicate import (
    AlwaysTruePredicate,
    AndPredicate,
    EqPredicate,
    NotPredicate,
    OrPredicate,
    Predicate,
    always_true_p,
)
from predicate.set_predicates import InPredicate, NotInPredicate


def optimize_or_predicate[T](predicate: OrPredicate[T]) -> Predicate[T]:
    from predicate.optimizer.predicate_optimizer import optimize

    # before optimization

    if optimized := optimize_or_not(left=predicate.left, right=predicate.right):
        return optimized

    left = optimize(predicate.left)
    right = optimize(predicate.right)

    # p | p == p
    if left == right:
        return left

    if optimized := optimize_or_not(left=left, right=right):
        return optimized

    from predicate.implies import implies

    match left, right:
        case _, AlwaysTruePredicate():
            return always_true_p  # p | True == True
        case AlwaysTruePredicate(), _:
            return always_true_p  # True | p == True

        case AndPredicate(and_left_left, and_left_right), AndPredicate(and_right_left, and_right_right):
            match and_left_left, and_left_right, and_right_left, and_right_right:
                case (
                    NotPredicate(left_not),
                    Predicate() as q,
                    Predicate() as p,
                    NotPredicate(right_not),
                ) if left_not == p and right_not == q:
                    return p ^ q  # (~p & q) | (p & ~q) == p ^ q
                case (
                    Predicate() as p,
                    NotPredicate(left_not),
                    NotPredicate(right_not),
                    Predicate() as q,
                ) if left_not == q and right_not == p:
                    return p ^ q  # (p & ~q) | (~p & q) == p ^ q
                case _:
                    return OrPredicate(left=left, right=right)

        case _, AndPredicate(and_left, and_right):
            match and_left:
                case NotPredicate(not_predicate) if not_predicate == left:  # p | (~p & q) == p | q
                    return OrPredicate(left=left, right=and_right)

        case InPredicate(v1), EqPredicate(v2) if v2 not in v1:
            return InPredicate((*v1, v2))
        case EqPredicate(v1), InPredicate(v2) if v1 not in v2:
            return InPredicate((*v2, v1))
        case EqPredicate(v1), EqPredicate(v2) if v1 != v2:
            return InPredicate((v1, v2))

        case EqPredicate(v1), NotInPredicate(v2) if v1 in v2:
            return optimize_not_in_predicate(NotInPredicate(v2 - {v1}))

        case InPredicate(v1), InPredicate(v2) if v := v1 | v2:
            return optimize_in_predicate(InPredicate(v=v))

        case InPredicate(v1), NotInPredicate(v2):
            if v := v2 - (v1 & v2):
                return optimize_not_in_predicate(NotInPredicate(v=v))
            return always_true_p

        case AnyPredicate(left_any), AnyPredicate(right_any):
            return AnyPredicate(optimize(OrPredicate(left=left_any, right=right_any)))

        case _, _ if implies(left, right):
            return right

        case _, _ if implies(right, left):
            return left

        # case _, _ if implies(left, negate(right)):
        #     return negate(left)
        #
        # case _, _ if implies(right, negate(left)):
        #     return negate(right)

        case _, _ if or_contains_negate(predicate, right):
            return always_true_p  # p | q | ... | ~p == True

        case _, _ if or_contains_negate(predicate, left):
            return always_true_p  # q | p | ... | ~p == True

    return OrPredicate(left=left, right=right)


def optimize_or_not[T](left: Predicate[T], right: Predicate[T]) -> Predicate[T] | None:
    from predicate.negate import negate

    match left, right:
        case _, _ if left == negate(right):
            return always_true_p  # p | ~p == true

    return None


def or_contains_negate(predicate: OrPredicate, sub_predicate: Predicate) -> bool:
    from predicate.negate import negate

    match left := predicate.left, right := predicate.right:
        case OrPredicate() as or_left, _:
            return or_contains_negate(or_left, sub_predicate)
        # case _, OrPredicate() as or_right:
        #     return or_contains_negate(or_right, sub_predicate)
        # case OrPredicate() as or_left, OrPredicate() as or_right:
        #     return or_contains_negate(or_left, sub_predicate) or or_contains_negate(or_right, sub_predicate)
        case _:
            return negate(sub_predicate) in (left, right)
