from predicate.all_predicate import AllPredicate
from predicate.implies import implies
from predicate.is_instance_predicate import IsInstancePredicate
from predicate.optimizer.in_optimizer import optimize_in_predicate, optimize_not_in_predicate
from predicate.predicate import (
    AlwaysTruePredicate,
    AndPredicate,
    EqPredicate,
    FnPredicate,
    GePredicate,
    GtPredicate,
    LePredicate,
    LtPredicate,
    NotPredicate,
    OrPredicate,
    Predicate,
    always_false_p,
    always_true_p,
)
from predicate.range_predicate import GeLePredicate, GeLtPredicate, GtLePredicate, GtLtPredicate
from predicate.set_predicates import InPredicate, IsSubsetPredicate, NotInPredicate


def optimize_and_predicate[T](predicate: AndPredicate[T]) -> Predicate[T]:
    from predicate.negate import negate
    from predicate.optimizer.predicate_optimizer import optimize

    match left := predicate.left, right := predicate.right:
        case OrPredicate(or_left, or_right), _:
            match or_left, or_right:
                case NotPredicate(not_predicate), _ if not_predicate == right:  # (~p | q) & p == q & p
                    return AndPredicate(left=or_right, right=right)
                case _, NotPredicate(not_predicate) if not_predicate == right:  # (q | ~p) & p == q & p
                    return AndPredicate(left=or_left, right=right)

        case _, OrPredicate():
            return optimize_and_predicate(AndPredicate(left=right, right=left))

        case _, _ if left == negate(right):
            return always_false_p  # p & ~p == False

    match left := optimize(left), right := optimize(right):
        case _, AlwaysTruePredicate():  # p & True == p
            return left
        case AlwaysTruePredicate(), _:  # True & p == p
            return right

        case GePredicate(v1), LePredicate(v2) if v1 < v2:
            return GeLePredicate(lower=v1, upper=v2)
        case GePredicate(v1), LePredicate(v2) if v1 == v2:
            return EqPredicate(v=v1)

        case GePredicate(v1), LtPredicate(v2) if v1 < v2:
            return GeLtPredicate(lower=v1, upper=v2)

        case GtPredicate(v1), LePredicate(v2) if v1 < v2:
            return GtLePredicate(lower=v1, upper=v2)

        case GtPredicate(v1), LtPredicate(v2) if v1 < v2:
            return GtLtPredicate(lower=v1, upper=v2)

        case IsInstancePredicate(klass_left), IsInstancePredicate(klass_right) if klass_left != klass_right:
            return always_false_p

        case IsSubsetPredicate(v1), IsSubsetPredicate(v2):
            return IsSubsetPredicate(v) if (v := v1 & v2) else always_false_p

        case FnPredicate(predicate_fn), EqPredicate(v):
            return always_true_p if predicate_fn(v) else always_false_p

        case InPredicate(v1), InPredicate(v2):
            if v := v1 & v2:
                return optimize_in_predicate(InPredicate(v=v))
            return always_false_p

        case InPredicate(v1), NotInPredicate(v2):
            if v := v1 - v2:
                return optimize_in_predicate(InPredicate(v=v))
            return always_false_p

        case NotInPredicate(v1), NotInPredicate(v2) if v := v1 | v2:
            return optimize_not_in_predicate(NotInPredicate(v=v))

        case AllPredicate(left_all), AllPredicate(right_all):
            # All(p1) & All(p2) => All(p1 & p2)
            return optimize(AllPredicate(predicate=optimize(AndPredicate(left=left_all, right=right_all))))

        case _, _ if implies(left, right):
            return left  # p => q and (p & q) results in q

        case _, _ if implies(right, left):
            return right  # q => p and (p & q) results in p

        case _, _ if implies(left, negate(right)) or implies(right, negate(left)):
            return always_false_p

        case _, _ if and_contains_negate(predicate, right):
            return always_false_p  # p & q & ... & ~p == False

        case _, _ if and_contains_negate(predicate, left):
            return always_false_p  # q & p & ... & ~p == False

        case _, _ if left == right:  # p & p == p
            return left

        case _:
            return AndPredicate(left=left, right=right)


def and_contains_negate(predicate: AndPredicate, sub_predicate: Predicate) -> bool:
    from predicate.negate import negate

    match left := predicate.left, right := predicate.right:
        # case AndPredicate() as and_left, AndPredicate() as and_right:
        #     return and_contains_negate(and_left, sub_predicate) or and_contains_negate(and_right, sub_predicate)
        case _ if negate(sub_predicate) in (left, right):
            return True
        case AndPredicate() as and_left, _:
            return and_contains_negate(and_left, sub_predicate)
        case _, AndPredicate() as and_right:
            return and_contains_negate(and_right, sub_predicate)
        case _:
            return negate(sub_predicate) in (left, right)
