from predicate.optimizer.in_optimizer import optimize_in_predicate
from predicate.predicate import (
    AlwaysFalsePredicate,
    AlwaysTruePredicate,
    AndPredicate,
    EqPredicate,
    NotPredicate,
    OrPredicate,
    Predicate,
    XorPredicate,
    always_false_p,
    always_true_p,
)
from predicate.set_predicates import InPredicate


def optimize_xor_predicate[T](predicate: XorPredicate[T]) -> Predicate[T]:
    from predicate.optimizer.predicate_optimizer import optimize

    if optimized := optimize_xor_not(left=predicate.left, right=predicate.right):
        return optimized

    left = optimize(predicate.left)
    right = optimize(predicate.right)

    if optimized := optimize_xor_not(left=left, right=right):
        return optimized

    match left, right:
        case _, AlwaysFalsePredicate():  # p ^ False = p
            return left
        case AlwaysFalsePredicate(), _:  # False ^ p = p
            return right
        case _, AlwaysTruePredicate():  # p ^ True = ~p
            return optimize(NotPredicate(predicate=left))
        case AlwaysTruePredicate(), _:  # True ^ p = ~p
            return optimize(NotPredicate(predicate=right))
        case _, _ if left == right:  # p ^ p == False
            return always_false_p

        case InPredicate(v1), InPredicate(v2):
            return optimize_in_predicate(InPredicate(v=v1 ^ v2))

        case InPredicate(v1), EqPredicate(v2):
            return optimize_in_predicate(InPredicate(v=v1 ^ {v2}))

        case _, AndPredicate(and_left, and_right):
            match and_left, and_right:
                case NotPredicate(not_predicate), _ if left == not_predicate:
                    return NotPredicate(OrPredicate(left=left, right=and_right))  # p ^ (^p & q) == ~(p | q)
                case _, NotPredicate(not_predicate) if left == not_predicate:
                    return NotPredicate(OrPredicate(left=left, right=and_left))  # p ^ (q & ^p) == ~(p | q)
                case _ if left == and_left:
                    return AndPredicate(left=left, right=NotPredicate(and_right))  # p ^ (p & q) = p & ~q
                case _:
                    return XorPredicate(left=left, right=right)
        case AndPredicate(), _:
            return optimize_xor_predicate(XorPredicate(left=right, right=left))

        case _, OrPredicate(or_left, or_right) if left == or_left:
            # TODO: this is not correct!
            return or_right
        case _, OrPredicate(or_left, or_right) if left == or_right:
            return or_left
        case OrPredicate(or_left, or_right), _ if right == or_left:
            return or_right
        case OrPredicate(or_left, or_right), _ if right == or_right:
            return or_left

        case XorPredicate(xor_left, xor_right), _ if right == xor_left:
            return xor_right  # p ^ q ^ p = q
        case XorPredicate(xor_left, xor_right), _ if right == xor_right:
            return xor_left  # p ^ q ^ q = p

        case _:
            return XorPredicate(left=left, right=right)


def optimize_xor_not[T](left: Predicate[T], right: Predicate[T]) -> Predicate[T] | None:
    from predicate.negate import negate

    match left, right:
        case NotPredicate(left_p), NotPredicate(right_p):  # ~p ^ ~q == p ^ q
            return XorPredicate(left=left_p, right=right_p)
        case _, _ if left == negate(right):  # ~p ^ p == True
            return always_true_p

    return None
