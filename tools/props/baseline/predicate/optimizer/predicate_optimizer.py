from predicate.all_predicate import AllPredicate
from predicate.any_predicate import AnyPredicate
from predicate.optimizer.all_optimizer import optimize_all_predicate
from predicate.optimizer.and_optimizer import optimize_and_predicate
from predicate.optimizer.any_optimizer import optimize_any_predicate
from predicate.optimizer.in_optimizer import optimize_in_predicate, optimize_not_in_predicate
from predicate.optimizer.not_optimizer import optimize_not_predicate
from predicate.optimizer.or_optimizer import optimize_or_predicate
from predicate.optimizer.xor_optimizer import optimize_xor_predicate
from predicate.predicate import AndPredicate, NotPredicate, OrPredicate, Predicate, XorPredicate
from predicate.set_predicates import InPredicate, NotInPredicate


def optimize[T](predicate: Predicate[T]) -> Predicate[T]:
    """Optimize the given predicate."""
    match predicate:
        case AllPredicate() as all_predicate:
            return optimize_all_predicate(all_predicate)
        case AndPredicate() as and_predicate:
            return optimize_and_predicate(and_predicate)
        case AnyPredicate() as any_predicate:
            return optimize_any_predicate(any_predicate)
        case NotPredicate() as not_predicate:
            return optimize_not_predicate(not_predicate)
        case OrPredicate() as or_predicate:
            return optimize_or_predicate(or_predicate)
        case XorPredicate() as xor_predicate:
            return optimize_xor_predicate(xor_predicate)
        case InPredicate() as in_predicate:
            return optimize_in_predicate(in_predicate)
        case NotInPredicate() as not_in_predicate:
            return optimize_not_in_predicate(not_in_predicate)
        case _:
            return predicate


def can_optimize[T](predicate: Predicate[T]) -> bool:
    """Return True if the predicate can be optimized, otherwise False."""
    return optimize(predicate) != predicate
