from predicate.all_predicate import AllPredicate
from predicate.any_predicate import AnyPredicate
from predicate.predicate import (
    AlwaysFalsePredicate,
    AlwaysTruePredicate,
    IsEmptyPredicate,
    IsNonePredicate,
    IsNotNonePredicate,
    NotPredicate,
    Predicate,
    always_true_p,
)


def optimize_all_predicate[T](predicate: AllPredicate[T]) -> Predicate[T]:
    from predicate.optimizer.predicate_optimizer import optimize

    optimized = optimize(predicate.predicate)

    match optimized:
        case AlwaysTruePredicate():
            return always_true_p
        case AlwaysFalsePredicate():
            return IsEmptyPredicate()
        case NotPredicate(not_predicate):
            return NotPredicate(predicate=AnyPredicate(predicate=not_predicate))
        case IsNotNonePredicate():
            return NotPredicate(predicate=AnyPredicate(predicate=IsNonePredicate()))
        case _:
            pass

    return AllPredicate(predicate=optimized)
