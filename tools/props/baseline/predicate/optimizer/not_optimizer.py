from predicate.all_predicate import AllPredicate
from predicate.any_predicate import AnyPredicate
from predicate.predicate import (
    AndPredicate,
    NotPredicate,
    OrPredicate,
    Predicate,
    XorPredicate,
)


def optimize_not_predicate[T](predicate: NotPredicate[T]) -> Predicate[T]:
    from predicate.negate import negate
    from predicate.optimizer.predicate_optimizer import optimize

    # ~~p == p
    match predicate.predicate:
        case NotPredicate(not_predicate):
            return optimize(not_predicate)

    optimized = optimize(predicate.predicate)

    match optimized:
        case AllPredicate(all_predicate):
            match negate(all_predicate):
                case _ as inverted:
                    return AnyPredicate(predicate=inverted)

        case AndPredicate(left, right):
            match left, right:
                case _, NotPredicate(not_predicate):
                    return OrPredicate(left=negate(left), right=not_predicate)  # ~(p & ~q) => ~p | q
                case NotPredicate(not_predicate), _:
                    return OrPredicate(left=not_predicate, right=negate(right))  # ~(~p & q) => p | ~q
                case _:
                    return negate(optimized)

        case AnyPredicate(any_predicate):
            match negate(any_predicate):
                case _ as inverted:
                    return AllPredicate(predicate=inverted)

        case OrPredicate(left, right):
            match left, right:
                case _, NotPredicate(not_predicate):
                    return AndPredicate(left=negate(left), right=not_predicate)  # ~(p | ~q) => ~p & q
                case NotPredicate(not_predicate), _:
                    return AndPredicate(left=not_predicate, right=negate(right))  # ~(~p | q) => p & ~q
                case _:
                    return negate(optimized)

        case XorPredicate(left, right):
            match left, right:
                case NotPredicate(not_predicate), _:  # ~(~p ^ q) == p ^ q
                    return XorPredicate(left=not_predicate, right=right)
                case _, NotPredicate(not_predicate):  # ~(p ^ ~q) == p ^ q
                    return XorPredicate(left=left, right=not_predicate)
                case _:  # ~(p ^ q) == ~p ^ q
                    return XorPredicate(left=NotPredicate(predicate=left), right=right)

    return negate(optimized)
