from predicate.all_predicate import AllPredicate
from predicate.any_predicate import AnyPredicate
from predicate.predicate import (
    AlwaysFalsePredicate,
    AlwaysTruePredicate,
    EqPredicate,
    NePredicate,
    NotPredicate,
    Predicate,
    always_false_p,
    always_true_p,
)


def optimize_any_predicate[T](predicate: AnyPredicate[T]) -> Predicate[T]:
    from predicate.optimizer.predicate_optimizer import optimize

    optimized = optimize(predicate.predicate)

    match optimized:
        case AlwaysTruePredicate():
            return always_true_p
        case AlwaysFalsePredicate():
            return always_false_p
        case NePredicate(v):
            return NotPredicate(predicate=AllPredicate(predicate=EqPredicate(v)))
        case NotPredicate(not_predicate):
            return NotPredicate(predicate=AllPredicate(predicate=optimize(not_predicate)))
        case _:
            pass

    return AnyPredicate(predicate=optimized)
