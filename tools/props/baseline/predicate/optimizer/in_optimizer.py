from more_itertools import one

from predicate.predicate import EqPredicate, NePredicate, Predicate, always_false_p, always_true_p
from predicate.set_predicates import InPredicate, NotInPredicate


def optimize_in_predicate[T](predicate: InPredicate[T]) -> Predicate[T]:
    match len(v := predicate.v):
        case 0:
            return always_false_p
        case 1:
            return EqPredicate(one(v))
        case _:
            return predicate


def optimize_not_in_predicate[T](predicate: NotInPredicate[T]) -> Predicate[T]:
    match len(v := predicate.v):
        case 0:
            return always_true_p
        case 1:
            return NePredicate(one(v))
        case _:
            return predicate
