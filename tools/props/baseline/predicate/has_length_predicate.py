from dataclasses import dataclass
from typing import Iterable

from more_itertools import ilen

from predicate.predicate import Predicate


@dataclass
class HasLengthPredicate[T](Predicate[T]):
    """A predicate class that models the 'length' predicate."""

    length: int

    def __call__(self, iterable: Iterable[T]) -> bool:
        return ilen(iterable) == self.length

    def __repr__(self) -> str:
        return f"has_length_p({self.length})"
