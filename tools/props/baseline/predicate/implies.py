from functools import singledispatch

from predicate.predicate import (
    AlwaysFalsePredicate,
    AlwaysTruePredicate,
    AndPredicate,
    EqPredicate,
    GePredicate,
    GtPredicate,
    NePredicate,
    Predicate,
)
from predicate.set_predicates import (
    InPredicate,
    IsRealSubsetPredicate,
    IsRealSupersetPredicate,
    IsSubsetPredicate,
    IsSupersetPredicate,
    NotInPredicate,
)


@singledispatch
def implies(predicate: Predicate, other: Predicate) -> bool:
    """Return True if predicate implies another predicate, otherwise False."""
    return False


@implies.register
def _(_predicate: AlwaysFalsePredicate, _other: Predicate) -> bool:
    return True


@implies.register
def _(_predicate: AlwaysTruePredicate, other: Predicate) -> bool:
    return other == AlwaysTruePredicate()


@implies.register
def _(predicate: AndPredicate, other: Predicate) -> bool:
    return other == predicate.left or other == predicate.right


@implies.register
def _(predicate: GePredicate, other: Predicate) -> bool:
    match other:
        case GePredicate(v):
            return predicate.v >= v
        case GtPredicate(v):
            return predicate.v > v
        case _:
            return False


@implies.register
def _(predicate: GtPredicate, other: Predicate) -> bool:
    match other:
        case GePredicate(v):
            return predicate.v >= v
        case GtPredicate(v):
            return predicate.v >= v
        case _:
            return False


@implies.register
def _(predicate: EqPredicate, other: Predicate) -> bool:
    match other:
        case EqPredicate(v):
            return predicate.v == v
        case NePredicate(v):
            return predicate.v != v
        case GePredicate(v):
            return predicate.v >= v
        case GtPredicate(v):
            return predicate.v > v
        case InPredicate(v):
            return predicate.v in v
        case NotInPredicate(v):
            return predicate.v not in v
        case _:
            return False


@implies.register
def _(predicate: IsRealSubsetPredicate, other: Predicate) -> bool:
    match other:
        case IsSubsetPredicate(v):
            return predicate.v == v
        case _:
            return False


@implies.register
def _(predicate: IsRealSupersetPredicate, other: Predicate) -> bool:
    match other:
        case IsSupersetPredicate(v):
            return predicate.v == v
        case _:
            return False


@implies.register
def _(predicate: InPredicate, other: Predicate) -> bool:
    match other:
        case InPredicate(v):
            return predicate.v.issubset(v)
        case _:
            return False
