from abc import abstractmethod
from dataclasses import dataclass
from datetime import datetime
from typing import Callable, Final, Iterable
from uuid import UUID


@dataclass
class Predicate[T]:
    """An abstract class to represent a predicate."""

    @abstractmethod
    def __call__(self, *args, **kwargs) -> bool:
        raise NotImplementedError

    def __and__(self, predicate: "Predicate") -> "Predicate":
        """Return the 'and' predicate."""
        return AndPredicate(left=self, right=predicate)

    def __or__(self, predicate: "Predicate") -> "Predicate":
        """Return the 'or' predicate."""
        return OrPredicate(left=resolve_predicate(self), right=resolve_predicate(predicate))

    def __xor__(self, predicate: "Predicate") -> "Predicate":
        """Return the 'xor' predicate."""
        return XorPredicate(left=self, right=predicate)

    def __invert__(self) -> "Predicate":
        """Return the 'negated' predicate."""
        return NotPredicate(predicate=self)


def resolve_predicate[T](predicate: Predicate[T]) -> Predicate[T]:
    from predicate.standard_predicates import PredicateFactory

    match predicate:
        case PredicateFactory() as factory:
            return factory.predicate
        case _:
            return predicate


@dataclass
class FnPredicate[T](Predicate[T]):
    """A predicate class that can hold a function."""

    predicate_fn: Callable[[T], bool]

    def __call__(self, x: T) -> bool:
        return self.predicate_fn(x)


@dataclass
class AndPredicate[T](Predicate[T]):
    """A predicate class that models the 'and' predicate.

    ```

    Attributes
    ----------
    left: Predicate[T]
        left predicate of the AndPredicate
    right: Predicate[T]
        right predicate of the AndPredicate

    """

    left: Predicate[T]
    right: Predicate[T]

    def __call__(self, x: T) -> bool:
        return self.left(x) and self.right(x)

    def __eq__(self, other: object) -> bool:
        match other:
            case AndPredicate(left, right):
                return (left == self.left and right == self.right) or (right == self.left and left == self.right)
            case _:
                return False

    def __repr__(self) -> str:
        return f"{repr(self.left)} & {repr(self.right)}"


@dataclass
class NotPredicate[T](Predicate[T]):
    """A predicate class that models the 'not' predicate.

    ```

    Attributes
    ----------
    predicate: Predicate[T]
        predicate that will be negated


    """

    predicate: Predicate[T]

    def __call__(self, x: T) -> bool:
        return not self.predicate(x)

    def __repr__(self) -> str:
        return f"~{repr(self.predicate)}"


@dataclass
class OrPredicate[T](Predicate[T]):
    """A predicate class that models the 'or' predicate.

    ```

    Attributes
    ----------
    left: Predicate[T]
        left predicate of the OrPredicate
    right: Predicate[T]
        right predicate of the OrPredicate

    """

    left: Predicate[T]
    right: Predicate[T]

    def __call__(self, x: T) -> bool:
        return self.left(x) or self.right(x)

    def __eq__(self, other: object) -> bool:
        match other:
            case OrPredicate(left, right):
                return (left == self.left and right == self.right) or (right == self.left and left == self.right)
            case _:
                return False

    def __repr__(self) -> str:
        return f"{repr(self.left)} | {repr(self.right)}"


@dataclass
class XorPredicate[T](Predicate[T]):
    """A predicate class that models the 'xor' predicate.

    ```

    Attributes
    ----------
    left: Predicate[T]
        left predicate of the XorPredicate
    right: Predicate[T]
        right predicate of the XorPredicate

    """

    left: Predicate[T]
    right: Predicate[T]

    def __call__(self, x: T) -> bool:
        return self.left(x) ^ self.right(x)

    def __eq__(self, other: object) -> bool:
        match other:
            case XorPredicate(left, right):
                return (left == self.left and right == self.right) or (right == self.left and left == self.right)
            case _:
                return False

    def __repr__(self) -> str:
        return f"{repr(self.left)} ^ {repr(self.right)}"


@dataclass
class EqPredicate[T](Predicate[T]):
    """A predicate class that models the 'eq' (=) predicate."""

    v: T

    def __call__(self, x: T) -> bool:
        return x == self.v

    def __repr__(self) -> str:
        return f"eq_p({self.v})"


@dataclass
class NePredicate[T](Predicate[T]):
    """A predicate class that models the 'ne' (!=) predicate."""

    v: T

    def __call__(self, x: T) -> bool:
        return x != self.v

    def __repr__(self) -> str:
        return f"ne_p({self.v})"


type ConstrainedT[T: (int, str, float, datetime, UUID)] = T


@dataclass
class GePredicate[T](Predicate[T]):
    """A predicate class that models the 'ge' (>=) predicate."""

    v: ConstrainedT

    def __call__(self, x: T) -> bool:
        return x >= self.v

    def __repr__(self) -> str:
        return f"ge_p({self.v})"


@dataclass
class GtPredicate[T](Predicate[T]):
    """A predicate class that models the 'gt' (>) predicate."""

    v: ConstrainedT

    def __call__(self, x: T) -> bool:
        return x > self.v

    def __repr__(self) -> str:
        return f"gt_p({self.v})"


@dataclass
class LePredicate[T](Predicate[T]):
    """A predicate class that models the 'le' (<=) predicate."""

    v: ConstrainedT

    def __call__(self, x: T) -> bool:
        return x <= self.v

    def __repr__(self) -> str:
        return f"le_p({self.v})"


@dataclass
class LtPredicate[T](Predicate[T]):
    """A predicate class that models the 'lt' (<) predicate."""

    v: ConstrainedT

    def __call__(self, x: T) -> bool:
        return x < self.v

    def __repr__(self) -> str:
        return f"lt_p({self.v})"


@dataclass
class IsEmptyPredicate[T](Predicate[T]):
    """A predicate class that models the 'empty' predicate."""

    def __call__(self, iter: Iterable[T]) -> bool:
        return len(list(iter)) == 0

    def __repr__(self) -> str:
        return "is_empty_p"


@dataclass
class IsNotEmptyPredicate[T](Predicate[T]):
    """A predicate class that models the 'not empty' predicate."""

    def __call__(self, iter: Iterable[T]) -> bool:
        return len(list(iter)) > 0

    def __repr__(self) -> str:
        return "is_not_empty_p"


@dataclass
class AlwaysTruePredicate(Predicate):
    """A predicate class that models the 'True' predicate."""

    def __call__(self, *args, **kwargs):
        return True

    def __repr__(self) -> str:
        return "always_true_p"


@dataclass
class AlwaysFalsePredicate(Predicate):
    """A predicate class that models the 'False' predicate."""

    def __call__(self, *args, **kwargs):
        return False

    def __repr__(self) -> str:
        return "always_false_p"


@dataclass
class IsNonePredicate[T](Predicate[T]):
    """A predicate class that models the 'is none' predicate."""

    def __call__(self, x: T) -> bool:
        return x is None

    def __repr__(self) -> str:
        return "is_none_p"


@dataclass
class IsNotNonePredicate[T](Predicate[T]):
    """A predicate class that models the 'is not none' predicate."""

    def __call__(self, x: T) -> bool:
        return x is not None

    def __repr__(self) -> str:
        return "is_not_none_p"


@dataclass
class IsFalsyPredicate[T](Predicate[T]):
    """A predicate class that the falsy (0, False, [], "", etc.) predicate."""

    def __call__(self, x: T) -> bool:
        return not bool(x)

    def __repr__(self) -> str:
        return "is_falsy_p"


@dataclass
class IsTruthyPredicate[T](Predicate[T]):
    """A predicate class that the truthy (13, True, [1], "foo", etc.) predicate."""

    def __call__(self, x: T) -> bool:
        return bool(x)

    def __repr__(self) -> str:
        return "is_truthy_p"


always_true_p: Final[AlwaysTruePredicate] = AlwaysTruePredicate()
"""Predicate that always evaluates to True."""

always_false_p: Final[AlwaysFalsePredicate] = AlwaysFalsePredicate()
"""Predicate that always evaluates to False."""

is_empty_p: Final[IsEmptyPredicate] = IsEmptyPredicate()
"""Predicate that returns True if the iterable is empty, otherwise False."""

is_not_empty_p: Final[IsNotEmptyPredicate] = IsNotEmptyPredicate()
"""Predicate that returns True if the iterable is not empty, otherwise False."""
