import inspect
from collections.abc import Iterator
from dataclasses import dataclass
from functools import cached_property

from predicate.predicate import Predicate
from predicate.this_predicate import is_library_frame, predicate_in_predicate_tree


@dataclass
class RootPredicate[T](Predicate[T]):
    """A predicate class that lazily references the root predicate."""

    @cached_property
    def root_predicate(self) -> Predicate | None:
        return find_root_predicate(self.frame, self)

    def __call__(self, x: T) -> bool:
        self.frame = inspect.currentframe()
        if self.root_predicate:
            return self.root_predicate(x)
        raise ValueError(f"Could not find 'root' predicate {self}")

    def __eq__(self, other: object) -> bool:
        # Each reference is its own node: two references are equal only if they are the same object.
        return self is other

    def __repr__(self) -> str:
        return "root_p"


def find_root_predicate(start_frame, predicate: Predicate) -> Predicate | None:
    for frame in get_frames(start_frame):
        if is_library_frame(frame):
            continue
        for key, value in reversed(frame.f_locals.items()):
            if isinstance(value, Predicate) and value != predicate and key != "self":
                if predicate_in_predicate_tree(value, predicate):
                    return value
    return None


def get_frames(frame) -> Iterator:
    if frame:
        yield frame
        yield from get_frames(frame.f_back)
