from dataclasses import dataclass
from typing import Any

from predicate.predicate import Predicate


@dataclass
class DictOfPredicate[T](Predicate[T]):
    """A predicate class that models the dict_of predicate."""

    key_value_predicates: list[tuple[Predicate, Predicate]]

    def __init__(self, key_value_predicates: list[tuple[Predicate | str, Predicate]]):
        def to_key_p(key_p: Predicate | str) -> Predicate:
            from predicate.standard_predicates import eq_p

            match key_p:
                case str(s):
                    return eq_p(s)
                case _:
                    return key_p

        self.key_value_predicates = [(to_key_p(key_p), value_p) for key_p, value_p in key_value_predicates]

    def __call__(self, x: Any) -> bool:
        if not isinstance(x, dict):
            return False

        if not x and self.key_value_predicates:
            return False

        # For all values, a predicate must be True
        for key, value in x.items():
            if not any(key_p(key) and value_p(value) for key_p, value_p in self.key_value_predicates):
                return False

        # All predicates must be True
        for key_p, value_p in self.key_value_predicates:
            if any(key_p(key) and not value_p(value) for key, value in x.items()):
                return False

        return True

    def __repr__(self) -> str:
        # TODO
        return "is_dict_of_p"
