from ipaddress import IPv4Address, IPv4Network, IPv6Address, IPv6Network

from predicate import FnPredicate
from predicate.predicate import Predicate
from predicate.property_predicate import PropertyPredicate

is_ipv4_address_global_p: Predicate[IPv4Address] = PropertyPredicate(getter=IPv4Address.is_global)
is_ipv4_address_multicast_p: Predicate[IPv4Address] = PropertyPredicate(getter=IPv4Address.is_multicast)
is_ipv4_address_private_p: Predicate[IPv4Address] = PropertyPredicate(getter=IPv4Address.is_private)
is_ipv4_address_loopback_p: Predicate[IPv4Address] = PropertyPredicate(getter=IPv4Address.is_loopback)
is_ipv4_address_reserved_p: Predicate[IPv4Address] = PropertyPredicate(getter=IPv4Address.is_reserved)
is_ipv4_address_link_local_p: Predicate[IPv4Address] = PropertyPredicate(getter=IPv4Address.is_link_local)
is_ipv4_address_unspecified_p: Predicate[IPv4Address] = PropertyPredicate(getter=IPv4Address.is_unspecified)

is_ipv6_address_global_p: Predicate[IPv6Address] = PropertyPredicate(getter=IPv6Address.is_global)
is_ipv6_address_multicast_p: Predicate[IPv6Address] = PropertyPredicate(getter=IPv6Address.is_multicast)
is_ipv6_address_private_p: Predicate[IPv6Address] = PropertyPredicate(getter=IPv6Address.is_private)
is_ipv6_address_loopback_p: Predicate[IPv6Address] = PropertyPredicate(getter=IPv6Address.is_loopback)
is_ipv6_address_reserved_p: Predicate[IPv6Address] = PropertyPredicate(getter=IPv6Address.is_reserved)
is_ipv6_address_link_local_p: Predicate[IPv6Address] = PropertyPredicate(getter=IPv6Address.is_link_local)
is_ipv6_address_unspecified_p: Predicate[IPv6Address] = PropertyPredicate(getter=IPv6Address.is_unspecified)
is_ipv6_address_site_local_p: Predicate[IPv6Address] = PropertyPredicate(getter=IPv6Address.is_site_local)

is_ipv4_network_global_p: Predicate[IPv4Network] = PropertyPredicate(getter=IPv4Network.is_global)
is_ipv4_network_multicast_p: Predicate[IPv4Network] = PropertyPredicate(getter=IPv4Network.is_multicast)
is_ipv4_network_private_p: Predicate[IPv4Network] = PropertyPredicate(getter=IPv4Network.is_private)
is_ipv4_network_loopback_p: Predicate[IPv4Network] = PropertyPredicate(getter=IPv4Network.is_loopback)
is_ipv4_network_reserved_p: Predicate[IPv4Network] = PropertyPredicate(getter=IPv4Network.is_reserved)
is_ipv4_network_link_local_p: Predicate[IPv4Network] = PropertyPredicate(getter=IPv4Network.is_link_local)
is_ipv4_network_unspecified_p: Predicate[IPv4Network] = PropertyPredicate(getter=IPv4Network.is_unspecified)

is_ipv6_network_global_p: Predicate[IPv6Network] = PropertyPredicate(getter=IPv6Network.is_global)
is_ipv6_network_multicast_p: Predicate[IPv6Network] = PropertyPredicate(getter=IPv6Network.is_multicast)
is_ipv6_network_private_p: Predicate[IPv6Network] = PropertyPredicate(getter=IPv6Network.is_private)
is_ipv6_network_loopback_p: Predicate[IPv6Network] = PropertyPredicate(getter=IPv6Network.is_loopback)
is_ipv6_network_reserved_p: Predicate[IPv6Network] = PropertyPredicate(getter=IPv6Network.is_reserved)
is_ipv6_network_link_local_p: Predicate[IPv6Network] = PropertyPredicate(getter=IPv6Network.is_link_local)
is_ipv6_network_unspecified_p: Predicate[IPv6Network] = PropertyPredicate(getter=IPv6Network.is_unspecified)
is_ipv6_network_site_local_p: Predicate[IPv6Network] = PropertyPredicate(getter=IPv6Network.is_site_local)


def subnet_of_p(value: IPv4Network | IPv6Network) -> Predicate[IPv4Network | IPv6Network]:
    return FnPredicate(lambda network: network.subnet_of(value))  # type: ignore


def supernet_of_p(value: IPv4Network | IPv6Network) -> Predicate[IPv4Network | IPv6Network]:
    return FnPredicate(lambda network: network.supernet_of(value))  # type: ignore
