import random
import string
import sys
from datetime import datetime
from random import choices
from typing import Iterator
from uuid import UUID, uuid4

from more_itertools import interleave, take

from predicate.predicate import Predicate


def random_complex_numbers() -> Iterator:
    yield complex(1, 1)


def random_dicts() -> Iterator:
    yield {}
    while True:
        keys = take(5, random_strings())
        values = take(5, random_anys())
        yield dict(zip(keys, values, strict=False))


def random_datetimes(lower: datetime | None = None, upper: datetime | None = None) -> Iterator:
    # TODO
    yield datetime.now()


def random_sets(min_size: int = 0, max_size: int = 10) -> Iterator:
    if min_size == 0:
        yield set()
    while True:
        length = random.randint(min_size, max_size)
        values = take(length, random_anys())
        yield set(values)


def random_strings(min_size: int = 0, max_size: int = 10) -> Iterator:
    population = string.ascii_letters + string.digits
    while True:
        length = random.randint(min_size, max_size)
        yield "".join(choices(population, k=length))


def random_floats(lower: float | None = None, upper: float | None = None) -> Iterator:
    # a bound that is not given is placed well beyond the given one (the fixed defaults -1e-6 and 1e6 could lie on
    # the wrong side of it)
    # (beyond the largest finite float only the infinity itself is left: the derived bound never crosses the given one)
    if lower is None:
        lower = -1e6 if upper is None else min(upper, max(-sys.float_info.max, min(-1e6, upper - max(1e6, abs(upper)))))
    if upper is None:
        upper = max(lower, min(sys.float_info.max, max(1e6, lower + max(1e6, abs(lower)))))
    yield lower
    yield upper
    # TODO: maybe first generate_true some smaller float
    while True:
        yield random.uniform(lower, upper) if lower < upper else lower


def random_ints(lower: int | None = None, upper: int | None = None) -> Iterator[int]:
    # yield lower
    # yield upper
    # TODO: maybe first generate_true some smaller ints

    # a bound that is not given lies beyond the given one (a fixed +-sys.maxsize could lie on the wrong side of it)
    if lower is None:
        lower = -sys.maxsize if upper is None else min(-sys.maxsize, upper - sys.maxsize)
    if upper is None:
        upper = max(sys.maxsize, lower + sys.maxsize)

    # sample around the admissible value closest to zero, so that a bound beyond +-100 still leaves a window
    origin = min(max(0, lower), upper)

    def between(limit: int, count: int | None = None) -> Iterator[int]:
        low = max(origin - limit, lower)
        high = min(origin + limit, upper)
        if high >= low:
            yield from (random.randint(low, high) for _ in range(0, limit if count is None else count))

    if lower > upper:
        return

    while True:
        yield from between(1)
        yield from between(10)
        yield from between(100)
        # now and then the whole range: a filter that rejects every small value (not_in_p(*range(-100, 101))) can be met
        yield from between(sys.maxsize, 10)


def random_uuids() -> Iterator[UUID]:
    while True:
        yield uuid4()


def random_anys() -> Iterator:
    yield from interleave(random_ints(), random_strings(), random_floats())


def generate_strings(predicate: Predicate[str]) -> Iterator[str]:
    yield from (item for item in random_strings() if predicate(item))


def generate_ints(predicate: Predicate[int]) -> Iterator[int]:
    yield from (item for item in random_ints() if predicate(item))


def generate_uuids(predicate: Predicate[UUID]) -> Iterator[UUID]:
    yield from (item for item in random_uuids() if predicate(item))


def generate_anys(predicate: Predicate) -> Iterator:
    yield from (item for item in random_anys() if predicate(item))
