__all__ = [
    "generate_false",
    "generate_true",
]
