import math
import random
import uuid
from collections.abc import Iterator
from datetime import datetime, timedelta
from functools import singledispatch
from itertools import cycle, repeat

import exrex  # type: ignore
from more_itertools import (
    chunked,
    flatten,
    interleave,
    powerset_of_sets,
    random_combination_with_replacement,
    random_permutation,
    take,
)

from predicate.any_predicate import AnyPredicate
from predicate.dict_of_predicate import DictOfPredicate
from predicate.generator.helpers import (
    generate_anys,
    generate_ints,
    generate_strings,
    generate_uuids,
    random_anys,
    random_complex_numbers,
    random_datetimes,
    random_dicts,
    random_floats,
    random_ints,
    random_sets,
    random_strings,
    random_uuids,
)
from predicate.has_key_predicate import HasKeyPredicate
from predicate.is_instance_predicate import IsInstancePredicate
from predicate.optimizer.predicate_optimizer import optimize
from predicate.predicate import (
    AlwaysFalsePredicate,
    AlwaysTruePredicate,
    AndPredicate,
    EqPredicate,
    GePredicate,
    GtPredicate,
    IsEmptyPredicate,
    IsFalsyPredicate,
    IsNonePredicate,
    IsNotNonePredicate,
    IsTruthyPredicate,
    LePredicate,
    LtPredicate,
    NePredicate,
    OrPredicate,
    Predicate,
    always_false_p,
)
from predicate.regex_predicate import RegexPredicate
from predicate.set_of_predicate import SetOfPredicate
from predicate.set_predicates import InPredicate, IsRealSubsetPredicate, IsSubsetPredicate, NotInPredicate
from predicate.standard_predicates import AllPredicate
from predicate.tuple_of_predicate import TupleOfPredicate


def _as_set(values) -> set | None:
    """Return the values as a set, or None when one of them is not hashable (dicts, sets, lists)."""
    try:
        return set(values)
    except TypeError:
        return None


@singledispatch
def generate_true[T](predicate: Predicate[T]) -> Iterator[T]:
    """Generate values that satisfy this predicate."""
    raise ValueError("Please register generator for correct predicate type")


@generate_true.register
def generate_all_p(all_predicate: AllPredicate) -> Iterator:
    yield []

    predicate = all_predicate.predicate

    while True:
        max_length = random.randint(1, 10)

        values = take(max_length, generate_true(predicate))
        if not values:
            return  # nothing satisfies the element predicate: only the empty collection does

        yield random_combination_with_replacement(values, max_length)

        values = take(max_length, generate_true(predicate))
        if (as_set := _as_set(random_combination_with_replacement(values, max_length))) is not None:
            yield as_set

        values = take(max_length, generate_true(predicate))
        yield list(random_combination_with_replacement(values, max_length))


@generate_true.register
def generate_always_true(_predicate: AlwaysTruePredicate) -> Iterator:
    yield True


@generate_true.register
def generate_and(predicate: AndPredicate) -> Iterator:
    if optimize(predicate) == always_false_p:
        yield from []
    else:
        yield from (item for item in generate_true(predicate.left) if predicate.right(item))
        yield from (item for item in generate_true(predicate.right) if predicate.left(item))


@generate_true.register
def generate_eq(predicate: EqPredicate) -> Iterator:
    yield from repeat(predicate.v)


@generate_true.register
def generate_false(_predicate: AlwaysFalsePredicate) -> Iterator:
    yield from []


@generate_true.register
def generate_ge(predicate: GePredicate) -> Iterator:
    match predicate.v:
        case datetime() as dt:
            yield from (dt + timedelta(days=days) for days in range(0, 5))
        case float():
            yield from random_floats(lower=predicate.v)
        case int():
            yield from random_ints(lower=predicate.v)
        case str():
            yield from generate_strings(predicate)
        case uuid.UUID():
            yield from generate_uuids(predicate)


@generate_true.register
def generate_gt(predicate: GtPredicate) -> Iterator:
    match predicate.v:
        case datetime() as dt:
            yield from (dt + timedelta(days=days) for days in range(1, 6))
        case float():
            yield from random_floats(lower=math.nextafter(predicate.v, math.inf))
        case int():
            yield from random_ints(lower=predicate.v + 1)
        case str():
            yield from generate_strings(predicate)
        case uuid.UUID():
            yield from generate_uuids(predicate)


@generate_true.register
def generate_has_key(predicate: HasKeyPredicate) -> Iterator:
    key = predicate.key
    for random_dict, value in zip(random_dicts(), random_anys(), strict=False):
        yield random_dict | {key: value}


@generate_true.register
def generate_le(predicate: LePredicate) -> Iterator:
    match predicate.v:
        case datetime() as dt:
            yield from (dt - timedelta(days=days) for days in range(0, 5))
        case float():
            yield from random_floats(upper=predicate.v)
        case int():
            yield from random_ints(upper=predicate.v)
        case str():
            yield from generate_strings(predicate)
        case uuid.UUID():
            yield from generate_uuids(predicate)


@generate_true.register
def generate_subset(predicate: IsSubsetPredicate) -> Iterator:
    yield from powerset_of_sets(predicate.v)


@generate_true.register
def generate_real_subset(predicate: IsRealSubsetPredicate) -> Iterator:
    yield from (v for v in powerset_of_sets(predicate.v) if v != predicate.v)


@generate_true.register
def generate_in(predicate: InPredicate) -> Iterator:
    yield from predicate.v


@generate_true.register
def generate_is_empty(_predicate: IsEmptyPredicate) -> Iterator:
    yield from ([], {}, (), "", set())


@generate_true.register
def generate_lt(predicate: LtPredicate) -> Iterator:
    match predicate.v:
        case datetime() as dt:
            yield from (dt - timedelta(days=days) for days in range(1, 6))
        case float():
            yield from random_floats(upper=math.nextafter(predicate.v, -math.inf))
        case int():
            yield from random_ints(upper=predicate.v - 1)
        case str():
            yield from generate_strings(predicate)
        case uuid.UUID():
            yield from generate_uuids(predicate)


@generate_true.register
def generate_ne(predicate: NePredicate) -> Iterator:
    yield not predicate.v


@generate_true.register
def generate_none(_predicate: IsNonePredicate) -> Iterator:
    yield None


@generate_true.register
def generate_not_in(predicate: NotInPredicate) -> Iterator:
    for item in predicate.v:
        match item:
            case int():
                yield from generate_ints(predicate)
            case str():
                yield from generate_strings(predicate)


@generate_true.register
def generate_not_none(predicate: IsNotNonePredicate) -> Iterator:
    yield from generate_anys(predicate)


@generate_true.register
def generate_or(predicate: OrPredicate) -> Iterator:
    yield from interleave(generate_true(predicate.left), generate_true(predicate.right))


@generate_true.register
def generate_regex(predicate: RegexPredicate) -> Iterator:
    yield from exrex.generate(predicate.pattern)


@generate_true.register
def generate_falsy(_predicate: IsFalsyPredicate) -> Iterator:
    yield from (False, 0, (), "", {})


@generate_true.register
def generate_truthy(_predicate: IsTruthyPredicate) -> Iterator:
    yield from (True, 1, "true", {1}, 3.14)


@generate_true.register
def generate_is_instance_p(predicate: IsInstancePredicate) -> Iterator:
    klass = predicate.klass[0]  # type: ignore
    if klass is str:
        yield from random_strings()
    elif klass is bool:
        yield from cycle((False, True))
    elif klass is complex:
        yield from random_complex_numbers()
    elif klass == datetime:
        yield from random_datetimes()
    elif klass is dict:
        yield from random_dicts()
    elif klass is float:
        yield from random_floats()
    elif klass == uuid.UUID:
        yield from random_uuids()
    elif klass is int:
        yield from random_ints()
    elif klass is set:
        yield from random_sets()


@generate_true.register
def generate_any_p(any_predicate: AnyPredicate) -> Iterator:
    predicate = any_predicate.predicate
    values = take(10, generate_true(predicate))
    if not values:
        return  # nothing satisfies the element predicate, so no collection satisfies any_p

    # TODO: also add some values for which predicate isn't valid

    yield random_combination_with_replacement(values, 5)

    if (as_set := _as_set(random_combination_with_replacement(values, 5))) is not None:
        yield as_set


@generate_true.register
def generate_dict_of_p(dict_of_predicate: DictOfPredicate) -> Iterator:
    key_value_predicates = dict_of_predicate.key_value_predicates

    candidates = zip(
        *flatten(((generate_true(key_p), generate_true(value_p)) for key_p, value_p in key_value_predicates)),
        strict=False,
    )

    yield from (dict(chunked(candidate, 2)) for candidate in candidates)


@generate_true.register
def generate_tuple_of_p(tuple_of_predicate: TupleOfPredicate) -> Iterator:
    predicates = tuple_of_predicate.predicates

    yield from zip(*(generate_true(predicate) for predicate in predicates), strict=False)


@generate_true.register
def generate_set_of_p(
    set_of_predicate: SetOfPredicate, *, min_size: int = 0, max_size: int = 10, order: bool = False
) -> Iterator:
    predicate = set_of_predicate.predicate

    while True:
        length = random.randint(min_size, max_size)
        values = take(length, generate_true(predicate))

        # set sizes can be smaller than required, because of duplicates
        if (result := _as_set(values)) is not None and len(result) == length:
            yield result if order else random_permutation(result)
