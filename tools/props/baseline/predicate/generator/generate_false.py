import math
import random
import uuid
from collections.abc import Iterator
from datetime import datetime, timedelta
from functools import singledispatch

from more_itertools import random_combination_with_replacement, take

from predicate.all_predicate import AllPredicate
from predicate.generator.helpers import (
    generate_anys,
    generate_ints,
    generate_strings,
    generate_uuids,
    random_anys,
    random_floats,
    random_ints,
)
from predicate.is_instance_predicate import IsInstancePredicate
from predicate.optimizer.predicate_optimizer import optimize
from predicate.predicate import (
    AlwaysFalsePredicate,
    AlwaysTruePredicate,
    AndPredicate,
    EqPredicate,
    GePredicate,
    GtPredicate,
    IsEmptyPredicate,
    IsFalsyPredicate,
    IsNonePredicate,
    IsNotNonePredicate,
    IsTruthyPredicate,
    NePredicate,
    NotPredicate,
    OrPredicate,
    Predicate,
    always_true_p,
)
from predicate.set_of_predicate import SetOfPredicate
from predicate.set_predicates import InPredicate


@singledispatch
def generate_false[T](predicate: Predicate[T]) -> Iterator[T]:
    """Generate values that don't satisfy this predicate."""
    raise ValueError("Please register generator for correct predicate type")


@generate_false.register
def generate_all_p(all_predicate: AllPredicate) -> Iterator:
    predicate = all_predicate.predicate

    while True:
        max_length = random.randint(1, 10)

        # TODO: combination of some true values, or just rewrite as any(false)
        values = take(max_length, generate_false(predicate))
        if not values:
            return  # every element satisfies the predicate, so every collection satisfies all_p

        yield random_combination_with_replacement(values, max_length)


@generate_false.register
def generate_and(predicate: AndPredicate) -> Iterator:
    if optimize(predicate) != always_true_p:
        yield from (item for item in generate_false(predicate.left))
        yield from (item for item in generate_false(predicate.right))


@generate_false.register
def generate_always_true(_predicate: AlwaysTruePredicate) -> Iterator:
    yield from []


@generate_false.register
def generate_eq(predicate: EqPredicate) -> Iterator:
    yield from generate_anys(NotPredicate(predicate=predicate))


@generate_false.register
def generate_always_false(_predicate: AlwaysFalsePredicate) -> Iterator:
    yield from random_anys()


@generate_false.register
def generate_ge(predicate: GePredicate) -> Iterator:
    match predicate.v:
        case datetime() as dt:
            yield from (dt - timedelta(days=days) for days in range(1, 6))
        case float():
            yield from random_floats(upper=math.nextafter(predicate.v, -math.inf))
        case int():
            yield from random_ints(upper=predicate.v - 1)
        case str():
            yield from generate_strings(NotPredicate(predicate=predicate))
        case uuid.UUID():
            yield from generate_uuids(NotPredicate(predicate=predicate))


@generate_false.register
def generate_gt(predicate: GtPredicate) -> Iterator:
    match predicate.v:
        case datetime() as dt:
            yield from (dt - timedelta(days=days) for days in range(0, 5))
        case float():
            yield from random_floats(upper=predicate.v)
        case int():
            yield from random_ints(upper=predicate.v)
        case str():
            yield from generate_strings(NotPredicate(predicate=predicate))
        case uuid.UUID():
            yield from generate_uuids(NotPredicate(predicate=predicate))


@generate_false.register
def generate_falsy(_predicate: IsFalsyPredicate) -> Iterator:
    yield from generate_anys(IsTruthyPredicate())


@generate_false.register
def generate_in(predicate: InPredicate) -> Iterator:
    # TODO: combine with generate_not_in true
    for item in predicate.v:
        match item:
            case int():
                yield from generate_ints(NotPredicate(predicate=predicate))
            case str():
                yield from generate_strings(NotPredicate(predicate=predicate))


@generate_false.register
def generate_is_empty(_predicate: IsEmptyPredicate) -> Iterator:
    # TODO: add generic helper function
    yield from ([1], {1, 2, 3}, (1,), "aap")


@generate_false.register
def generate_ne(predicate: NePredicate) -> Iterator:
    yield predicate.v


@generate_false.register
def generate_none(_predicate: IsNonePredicate) -> Iterator:
    yield from generate_anys(IsNotNonePredicate())


@generate_false.register
def generate_not_none(_predicate: IsNotNonePredicate) -> Iterator:
    yield None


@generate_false.register
def generate_truthy(_predicate: IsTruthyPredicate) -> Iterator:
    yield from (False, 0, (), "", {})


@generate_false.register
def generate_is_instance_p(predicate: IsInstancePredicate) -> Iterator:
    not_predicate = NotPredicate(predicate=predicate)
    yield from generate_anys(not_predicate)


@generate_false.register
def generate_or(predicate: OrPredicate) -> Iterator:
    yield from (item for item in generate_false(predicate.left) if not predicate.right(item))
    yield from (item for item in generate_false(predicate.right) if not predicate.left(item))


@generate_false.register
def generate_set_of_p(set_of_predicate: SetOfPredicate) -> Iterator:
    predicate = set_of_predicate.predicate

    values = take(10, generate_false(predicate))
    if not values:
        return  # every element satisfies the predicate, so every set does

    yield set(random_combination_with_replacement(values, 5))
