from dataclasses import dataclass

from predicate.predicate import Predicate


@dataclass
class HasKeyPredicate[T](Predicate[T]):
    """A predicate class that models the has key."""

    key: T

    def __call__(self, v: dict) -> bool:
        return self.key in v.keys()

    def __repr__(self) -> str:
        return f'has_key_p("{self.key}")'
