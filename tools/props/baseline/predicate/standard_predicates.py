import inspect
import math
from collections.abc import Callable, Container, Iterable
from dataclasses import dataclass
from datetime import datetime
from functools import partial
from typing import Any, Final, Hashable
from uuid import UUID

from predicate.all_predicate import AllPredicate
from predicate.any_predicate import AnyPredicate
from predicate.comp_predicate import CompPredicate
from predicate.dict_of_predicate import DictOfPredicate
from predicate.has_key_predicate import HasKeyPredicate
from predicate.has_length_predicate import HasLengthPredicate
from predicate.is_instance_predicate import IsInstancePredicate
from predicate.lazy_predicate import LazyPredicate
from predicate.predicate import (
    ConstrainedT,
    EqPredicate,
    FnPredicate,
    GePredicate,
    GtPredicate,
    IsFalsyPredicate,
    IsNonePredicate,
    IsNotNonePredicate,
    IsTruthyPredicate,
    LePredicate,
    LtPredicate,
    NePredicate,
    Predicate,
    resolve_predicate,
)
from predicate.range_predicate import GeLePredicate, GeLtPredicate, GtLePredicate, GtLtPredicate
from predicate.regex_predicate import RegexPredicate
from predicate.root_predicate import RootPredicate
from predicate.set_of_predicate import SetOfPredicate
from predicate.tee_predicate import TeePredicate
from predicate.this_predicate import ThisPredicate
from predicate.tuple_of_predicate import TupleOfPredicate

is_not_none_p: Final[IsNotNonePredicate] = IsNotNonePredicate()
"""Return True if value is not None, otherwise False."""

is_none_p: Final[IsNonePredicate] = IsNonePredicate()
"""Return True if value is None, otherwise False."""


def eq_p[T](v: T) -> EqPredicate[T]:
    """Return True if the value is equal to the constant, otherwise False."""
    return EqPredicate(v=v)


def ne_p[T](v: T) -> NePredicate[T]:
    """Return True if the value is not equal to the constant, otherwise False."""
    return NePredicate(v=v)


def ge_p(v: ConstrainedT) -> GePredicate[ConstrainedT]:
    """Return True if the value is greater or equal than the constant, otherwise False."""
    return GePredicate(v=v)


def ge_le_p(lower: ConstrainedT, upper: ConstrainedT) -> GeLePredicate[ConstrainedT]:
    """Return True if the value is greater or equal than the constant, otherwise False."""
    return GeLePredicate(lower=lower, upper=upper)


def ge_lt_p(lower: ConstrainedT, upper: ConstrainedT) -> GeLtPredicate[ConstrainedT]:
    """Return True if the value is greater or equal than the constant, otherwise False."""
    return GeLtPredicate(lower=lower, upper=upper)


def gt_le_p(lower: ConstrainedT, upper: ConstrainedT) -> GtLePredicate[ConstrainedT]:
    """Return True if the value is greater or equal than the constant, otherwise False."""
    return GtLePredicate(lower=lower, upper=upper)


def gt_lt_p(lower: ConstrainedT, upper: ConstrainedT) -> GtLtPredicate[ConstrainedT]:
    """Return True if the value is greater or equal than the constant, otherwise False."""
    return GtLtPredicate(lower=lower, upper=upper)


def gt_p(v: ConstrainedT) -> GtPredicate[ConstrainedT]:
    """Return True if the value is greater than the constant, otherwise False."""
    return GtPredicate(v=v)


def le_p(v: ConstrainedT) -> LePredicate[ConstrainedT]:
    """Return True if the value is less than or equal to the constant, otherwise False."""
    return LePredicate(v=v)


def lt_p(v: ConstrainedT) -> LtPredicate[ConstrainedT]:
    """Return True if the value is less than the constant, otherwise False."""
    return LtPredicate(v=v)


def comp_p[T](fn: Callable[[Any], T], predicate: Predicate[T]) -> CompPredicate:
    """Return a predicate, composed of a function and another predicate."""
    return CompPredicate(fn=fn, predicate=predicate)


def fn_p[T](fn: Callable[[T], bool]) -> Predicate[T]:
    """Return the boolean value of the function call."""
    return FnPredicate(predicate_fn=fn)


def tee_p[T](fn: Callable[[T], None]) -> Predicate[T]:
    """Return the boolean value of the function call."""
    return TeePredicate(fn=fn)


def has_length_p(length: int) -> Predicate[Iterable]:
    """Return True if length of iterable is equal to value, otherwise False."""
    return HasLengthPredicate(length=length)


neg_p = lt_p(0)
"""Returns True of the value is negative, otherwise False."""

zero_p = eq_p(0)
"""Returns True of the value is zero, otherwise False."""

pos_p = gt_p(0)
"""Returns True of the value is positive, otherwise False."""


def any_p[T](predicate: Predicate[T]) -> AnyPredicate[T]:
    """Return True if the predicate holds for any item in the iterable, otherwise False."""
    return AnyPredicate(predicate=resolve_predicate(predicate))


def all_p[T](predicate: Predicate[T]) -> AllPredicate[T]:
    """Return True if the predicate holds for each item in the iterable, otherwise False."""
    return AllPredicate(predicate=resolve_predicate(predicate))


def lazy_p(ref: str) -> LazyPredicate:
    """Return True if the predicate holds for each item in the iterable, otherwise False."""
    predicate = LazyPredicate(ref=ref)
    caller = inspect.currentframe().f_back  # type: ignore[union-attr]
    predicate.scope = caller.f_globals if caller else None  # type: ignore[attr-defined]
    return predicate


def is_instance_p(*klass: type) -> Predicate:
    """Return True if value is an instance of one of the classes, otherwise False."""
    return IsInstancePredicate(klass=klass)


def is_iterable_of_p[T](predicate: Predicate[T]) -> Predicate:
    """Return True if value is an iterable, and for all elements the predicate is True, otherwise False."""
    return is_iterable_p & all_p(predicate)


def is_single_or_iterable_of_p[T](predicate: Predicate[T]) -> Predicate:
    """Return True if value is an iterable or a single value, and for all elements the predicate is True, otherwise False."""
    return is_iterable_of_p(predicate) | predicate


def is_list_of_p[T](predicate: Predicate[T]) -> Predicate:
    """Return True if value is a list, and for all elements in the list the predicate is True, otherwise False."""
    return is_list_p & all_p(predicate)


def is_single_or_list_of_p[T](predicate: Predicate[T]) -> Predicate:
    """Return True if value is a list or a single value, and for all elements in the list the predicate is True, otherwise False."""
    return is_list_of_p(predicate) | predicate


def is_dict_of_p(*predicates: tuple[Predicate | str, Predicate]) -> Predicate:
    """Return True if value is a set, and for all elements in the set the predicate is True, otherwise False."""
    # return is_set_p & all_p(predicate)
    return DictOfPredicate(list(predicates))


def is_tuple_of_p(*predicates: Predicate) -> Predicate:
    """Return True if value is a tuple, and for all elements in the tuple the predicate is True, otherwise False."""
    return TupleOfPredicate(list(predicates))


def is_set_of_p[T](predicate: Predicate[T]) -> Predicate:
    """Return True if value is a set, and for all elements in the set the predicate is True, otherwise False."""
    # return is_set_p & all_p(predicate)
    return SetOfPredicate(predicate)


def regex_p(pattern: str) -> Predicate[str]:
    """Return True if value matches regex, otherwise False."""
    return RegexPredicate(pattern=pattern)


is_bool_p = is_instance_p(bool)
"""Returns True if the value is a bool, otherwise False."""

is_callable_p = is_instance_p(Callable)  # type: ignore
"""Returns True if the value is a callable, otherwise False."""

is_complex_p = is_instance_p(complex)
"""Returns True if the value is a complex, otherwise False."""

is_container_p = is_instance_p(Container)
"""Returns True if the value is a container (list, set, tuple, etc.), otherwise False."""

is_datetime_p = is_instance_p(datetime)
"""Returns True if the value is a datetime, otherwise False."""

is_dict_p = is_instance_p(dict)
"""Returns True if the value is a dict, otherwise False."""

is_float_p = is_instance_p(float)
"""Returns True if the value is a float, otherwise False."""

is_hashable_p = is_instance_p(Hashable)
"""Returns True if the value is hashable, otherwise False."""

is_iterable_p = is_instance_p(Iterable)
"""Returns True if the value is an Iterable, otherwise False."""

is_int_p = is_instance_p(int)
"""Returns True if the value is an integer, otherwise False."""

is_list_p = is_instance_p(list)
"""Returns True if the value is a list, otherwise False."""

is_predicate_p = is_instance_p(Predicate)
"""Returns True if the value is a predicate, otherwise False."""

is_range_p = is_instance_p(range)
"""Returns True if the value is a range, otherwise False."""

is_set_p = is_instance_p(set)
"""Returns True if the value is a set, otherwise False."""

is_str_p = is_instance_p(str)
"""Returns True if the value is a str, otherwise False."""

is_tuple_p = is_instance_p(tuple)
"""Returns True if the value is a tuple, otherwise False."""

is_uuid_p = is_instance_p(UUID)
"""Returns True if the value is a UUID, otherwise False."""

eq_true_p = eq_p(True)
"""Returns True if the value is True, otherwise False."""

eq_false_p = eq_p(False)
"""Returns True if the value is False, otherwise False."""

is_falsy_p: Final[IsFalsyPredicate] = IsFalsyPredicate()
is_truthy_p: Final[IsTruthyPredicate] = IsTruthyPredicate()


@dataclass
class PredicateFactory[T](Predicate[T]):
    """Test."""

    factory: Callable[[], Predicate]

    @property
    def predicate(self) -> Predicate:
        return self.factory()

    def __call__(self, *args, **kwargs) -> bool:
        raise ValueError("Don't call PredicateFactory directly")

    def __repr__(self) -> str:
        return repr(self.predicate)


root_p: PredicateFactory = PredicateFactory(factory=RootPredicate)
this_p: PredicateFactory = PredicateFactory(factory=ThisPredicate)


def dict_depth(value: dict) -> int:
    match value:
        case list() as l:
            return 1 + max(dict_depth(item) for item in l) if l else 0
        case dict() as d if d:
            return 1 + max(dict_depth(item) for item in d.values())
        case _:
            return 1


def has_key_p[T](key: T) -> HasKeyPredicate:
    """Return True if dict contains key, otherwise False."""
    return HasKeyPredicate(key=key)


def depth_op_p(depth: int, predicate: Callable[[int], Predicate]) -> Predicate[dict]:
    return comp_p(dict_depth, predicate(depth))


depth_eq_p = partial(depth_op_p, predicate=eq_p)
"""Returns if dict depth is equal to given depth, otherwise False."""

depth_ne_p = partial(depth_op_p, predicate=ne_p)
"""Returns if dict depth is not equal to given depth, otherwise False."""

depth_le_p = partial(depth_op_p, predicate=le_p)
"""Returns if dict depth is less or equal to given depth, otherwise False."""

depth_lt_p = partial(depth_op_p, predicate=lt_p)
"""Returns if dict depth is less than given depth, otherwise False."""

depth_ge_p = partial(depth_op_p, predicate=ge_p)
"""Returns if dict depth is greater or equal to given depth, otherwise False."""

depth_gt_p = partial(depth_op_p, predicate=gt_p)
"""Returns if dict depth is greater than given depth, otherwise False."""


is_finite_p = fn_p(fn=math.isfinite)
"""Return True if value is finite, otherwise False."""

is_inf_p = fn_p(fn=math.isinf)
"""Return True if value is infinite, otherwise False."""

is_nan_p = fn_p(fn=math.isnan)
"""Return True if value is not a number, otherwise False."""


# Construction of a lazy predicate to check for valid json

_valid_json_p = lazy_p("is_json_p")
json_list_p = is_list_p & lazy_p("json_values")

json_keys_p = all_p(is_str_p)

json_values = all_p(is_str_p | is_int_p | is_float_p | json_list_p | _valid_json_p | is_none_p)
json_values_p = comp_p(lambda x: x.values(), json_values)

is_json_p = (is_dict_p & json_keys_p & json_values_p) | json_list_p
"""Returns True if the value is a valid json structure, otherwise False."""
