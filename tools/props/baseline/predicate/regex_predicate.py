import re
from dataclasses import dataclass

from predicate.predicate import Predicate


@dataclass
class RegexPredicate[T](Predicate[T]):
    """A predicate class that holds a regular expression."""

    pattern: str
    flags: int

    def __init__(self, pattern: str, flags: int = 0):
        self.pattern = pattern
        self.flags = flags
        self.regex = re.compile(pattern, flags)

    def __call__(self, x: str) -> bool:
        return self.regex.match(x) is not None

    def __repr__(self) -> str:
        return f'regex_p("{self.regex.pattern}")'
