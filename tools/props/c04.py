"""C04 — negate(p) is the exact complement of p.
correspondence: Gen/Negate.v (regenerated) vs predicate.negate.negate, structurally, on every class x parameter
                grid; and the model's `ev` of p and of negate(p) vs the implementation's calls on a value domain.
search:         on the implementation alone: for every p in the grid and every x on which p(x) does not raise,
                negate(p)(x) must return `not p(x)`."""
import itertools

from common import *  # noqa: F401,F403
from common import call, code_of_call, enc, eval_codes, gen, main, rng_of
from optcommon import skey

from predicate.negate import negate
from predicate import predicate as PP
from predicate.standard_predicates import (all_p, any_p, comp_p, has_key_p, has_length_p, is_set_of_p, lazy_p, regex_p, tee_p)
from predicate.named_predicate import NamedPredicate
from predicate.set_predicates import in_p, not_in_p


def grid(rng, tier):
    makers = gen.scalar_atom_makers() + gen.set_atom_makers()
    atoms = [m() for m in makers]
    elem = [m() for m in gen.scalar_atom_makers(consts=[1, 3], with_fn=False)[:14]]
    atoms += [all_p(e) for e in elem[:8]] + [any_p(e) for e in elem[:8]] + [is_set_of_p(e) for e in elem[:4]]
    atoms += [PP.is_empty_p, PP.is_not_empty_p, has_length_p(0), has_length_p(2), has_key_p(1), has_key_p(3),
              regex_p("^a"), regex_p("b$"), lazy_p("nope"), tee_p(enc.FN_LIB[2][0]),
              comp_p(enc.COMP_LIB[0][0], PP.GePredicate(v=2)), NamedPredicate(name="p"), NamedPredicate(name="q")]
    # constants outside the numeric sort (bool, None, str, tuple): the structural comparison skips what it cannot encode, the search does not
    atoms += [PP.EqPredicate(v=True), PP.EqPredicate(v=False), PP.NePredicate(v=True), PP.NePredicate(v=False), PP.EqPredicate(v=None),
              PP.NePredicate(v=None), PP.EqPredicate(v="a"), PP.NePredicate(v=""), PP.EqPredicate(v=(1, 2)), PP.GePredicate(v="m"),
              PP.LtPredicate(v="m"), in_p(None), not_in_p(None, 1), in_p("a", "b"), not_in_p("a"), in_p(True), not_in_p(False), in_p((1, 2)),
              in_p(1, 2, (1, 2)), not_in_p(1, (1,))]
    # the exported named constants themselves (a subclass or a special-cased object behind the name is what users negate)
    import predicate.standard_predicates as _SP
    for _name in ("eq_true_p", "eq_false_p", "neg_p", "zero_p", "pos_p", "is_none_p", "is_not_none_p", "is_falsy_p", "is_truthy_p", "is_int_p", "is_bool_p",
                  "is_str_p", "is_float_p", "is_list_p", "is_dict_p", "is_set_p", "is_tuple_p", "is_callable_p", "is_iterable_p", "is_container_p", "is_hashable_p"):
        if hasattr(_SP, _name):
            atoms.append(getattr(_SP, _name))
    comps = []
    n = 150 if tier == "quick" else 1500
    for _ in range(n):
        a, b = rng.choice(atoms), rng.choice(atoms)
        op = rng.choice(["and", "or", "xor", "not", "notnot"])
        if op == "not":
            comps.append(gen.mk("not", a))
        elif op == "notnot":
            comps.append(gen.mk("not", gen.mk("not", a)))
        else:
            comps.append(gen.mk(op, a, b))
    return atoms + comps


VALUES = gen.SCALAR_VALUES + [[], [1], [1, 2], [3, 5], (), (1, 2), set(), {1}, {1, 2}, {1, 2, 3}, {2, 3}, {}, {1: 2}, [None], [[1]],
                              "yes", "m", "z", -1.5, (1,), {"k": 1}]


def correspondence(payload):
    rng = rng_of(payload)
    ps = grid(rng, payload["tier"])
    cx = enc.Ctx()
    items, kept, skipped = [], [], 0
    for p in ps:
        try:
            items.append(f"({cx.pred(p)}, {cx.pred(negate(p))})")
            kept.append(p)
        except enc.Unencodable:
            skipped += 1
    codes = eval_codes("c04a", "", items, "Definition run (c : pred*pred) : nat := if same (negate (fst c)) (snd c) then 0%nat else 1%nat.")
    mism = [{"case": "negate structure", "p": repr(kept[i]), "impl": repr(negate(kept[i]))} for i, c in enumerate(codes) if c != 0]
    # semantics of p and negate(p) on the value domain: model ev vs implementation call
    items2, exp2, desc2 = [], [], []
    for p in kept:
        if any(t in repr(p) for t in ("regex_p", "lazy_p", "tee_p")):
            continue
        for x in VALUES:
            for q in (p, negate(p)):
                try:
                    items2.append(f"({cx.pred(q)}, {cx.val(x)})")
                except enc.Unencodable:
                    continue
                exp2.append(code_of_call(q, x))
                desc2.append((repr(q), repr(x)))
    if payload["tier"] == "quick":
        idx = sorted(rng.sample(range(len(items2)), min(4000, len(items2))))
        items2, exp2, desc2 = [items2[i] for i in idx], [exp2[i] for i in idx], [desc2[i] for i in idx]
    codes2 = eval_codes("c04b", "", items2, "Definition run (c : pred*val) : nat := opt_bool_code (ev W0 (fst c) (snd c)).", chunk=1000)
    for i, c in enumerate(codes2):
        if c != exp2[i]:
            mism.append({"case": "call semantics", "p": desc2[i][0], "x": desc2[i][1], "model": c, "impl": exp2[i]})
    return {"evaluations": len(items) + len(items2), "distinct_nontrivial": len({repr(p) for p in kept}),
            "rule": "every predicate class x parameter grid plus random &,|,^,~ composites: negate(p) compared structurally "
                    "with Gen/Negate.v; p(x) and negate(p)(x) compared with the model's ev on a mixed-type value domain "
                    "(codes 0/1/2 = False/True/raises); distinct = distinct predicate reprs",
            "samples": [{"p": repr(kept[i]), "negate": repr(negate(kept[i]))} for i in range(0, len(kept), max(1, len(kept) // 5))][:5],
            "skipped_unencodable": skipped, "mismatches": mism}


def search(payload):
    rng = rng_of(payload)
    ps = grid(rng, "thorough" if payload.get("deep") else payload["tier"])
    # twins (predicates that print alike) negated one after the other in this one process, in both orders
    tw = []
    for ma, mb in gen.twin_makers():
        tw += [ma(), mb(), gen.mk("and", ma(), mb()), gen.mk("not", mb()), ma()]
    ps = ps + tw + tw[::-1]
    # large / precise parameters and LONG chains of atoms with dedicated duals
    big_mk, big_sets = gen.big_atom_makers()
    bigs = [m() for m in big_mk + big_sets]
    from predicate.standard_predicates import eq_p as _eq, ne_p as _ne
    for k in (8, 9, 12):
        c_and, c_or = _ne(0), _eq(0)
        for i in range(1, k):
            c_and, c_or = c_and & _ne(i), c_or | _eq(10 * i)
        bigs += [c_and, c_or]
    ps = ps + bigs
    # COMPOSITES OF COMPOSITES: connectives over negated operands, three-operand chains of every mix, quantifiers over connectives
    from predicate.standard_predicates import ge_p as _ge, le_p as _le, lt_p as _lt, gt_p as _gt, fn_p as _fn
    core = [_ge(0), _le(10), _ne(5), _lt(0), _gt(10), _eq(3), _fn(lambda x: isinstance(x, int) and x % 2 == 0)]
    N = lambda t: gen.mk("not", t)  # noqa: E731
    deep_ps = []
    for a, b in itertools.permutations(core[:6] + [core[6]], 2):
        for op in ("and", "or", "xor"):
            deep_ps += [gen.mk(op, N(a), N(b)), gen.mk(op, N(a), b), gen.mk(op, a, N(b)), N(gen.mk(op, N(a), N(b)))]
    for a, b, c in itertools.permutations(core[:5], 3):
        for o1, o2 in itertools.product(("and", "or", "xor"), repeat=2):
            deep_ps += [gen.mk(o1, gen.mk(o2, a, b), c), gen.mk(o1, a, gen.mk(o2, b, c))]
    for a, b in itertools.permutations(core[:6], 2):
        for q_ in (all_p, any_p):
            deep_ps += [q_(gen.mk("or", a, b)), q_(gen.mk("and", a, b)), q_(N(gen.mk("or", a, b))), q_(N(gen.mk("and", a, b))), q_(gen.mk("xor", a, b)),
                        q_(gen.mk("or", N(a), b)), N(q_(gen.mk("and", a, N(b))))]
    for a in core[:6]:
        deep_ps += [all_p(all_p(a)), any_p(all_p(a)), all_p(any_p(N(a))), N(any_p(any_p(a)))]
    ps = ps + deep_ps
    values = VALUES + [[-1, 20], [20, -1], [5, 3], [3, 5, 11], [-1], [20, 20], [0, 10], [[-1, 20]], [[3], [11]], [[]], 11, 12, -2] + [v for v in gen.TWIN_VALUES if not any(type(v) is type(w) and v == w for w in VALUES)] + gen.BIG_VALUES + gen.BIG_SETS + [8, 9, 10, 80, 90, 110]
    fails, n = [], 0
    for p in ps:
        try:
            np_ = negate(p)
        except Exception as e:  # noqa: BLE001
            fails.append({"p": repr(p), "error": f"negate raised {type(e).__name__}: {e}"})
            continue
        for x in values:
            k, r = call(p, x)
            if k != "ok" or not isinstance(r, bool):
                continue
            n += 1
            k2, r2 = call(np_, x)
            if k2 != "ok" or r2 != (not r):
                fails.append({"p": repr(p), "p_structure": skey(p), "x": repr(x), "p(x)": r, "negate(p)": repr(np_), "negate(p)_structure": skey(np_), "negate(p)(x)": repr(r2) if k2 == "ok" else f"raises {r2}"})
                if len(fails) >= 5:
                    break
        if len(fails) >= 5:
            break
    # HISTORY (history.py): negate() of TEMPORARIES, one after the other (the argument is dropped at once, its address is taken by the next),
    # repeated in several orders and after calls that raise; constants that cannot be hashed (lists, dicts, sets)
    import history
    from predicate.standard_predicates import is_none_p as is_none_p_
    from predicate.standard_predicates import eq_p as _eq2, ne_p as _ne2, ge_p as _ge2, gt_p as _gt2, le_p as _le2, lt_p as _lt2
    hvals = [0, 1, 2, 3, 4, 5, 7, 8, 9, -1, None, "a", (1, 2), [1, 2], [1], {"a": 1}, {1, 2}, [], 2.5]

    def neg_call(mk):
        def th():
            np_ = negate(mk())               # the argument is a temporary
            p = mk()
            for x in hvals:
                k, r = call(p, x)
                if k != "ok" or not isinstance(r, bool):
                    continue
                k2, r2 = call(np_, x)
                if k2 != "ok" or r2 != (not r):
                    return {"p": repr(p), "p_structure": skey(p), "x": repr(x), "p(x)": r, "negate(p)": repr(np_), "negate(p)_structure": skey(np_),
                            "negate(p)(x)": repr(r2) if k2 == "ok" else f"raises {r2}"}
            return None
        return th
    mks = []
    for c in ((1, 2, 3), (7, 8), (1,), (2, 3, 4, 5), (9,), (0, 1), (3, 8), ("a",), (None, 1)):
        mks += [(f"negate(in_p{c!r})", lambda c=c: in_p(*c)), (f"negate(not_in_p{c!r})", lambda c=c: not_in_p(*c))]
    for c in (0, 1, 2, 3, 2.5, "a", (1, 2), [1, 2], {"a": 1}, {1, 2}, [1], []):
        for nm, f in (("eq_p", _eq2), ("ne_p", _ne2)):
            mks.append((f"negate({nm}({c!r}))", lambda c=c, f=f: f(c)))
    for c in (0, 1, 3, 2.5, "a", (1, 2), [1, 2], [1]):
        for nm, f in (("ge_p", _ge2), ("gt_p", _gt2), ("le_p", _le2), ("lt_p", _lt2)):
            mks.append((f"negate({nm}({c!r}))", lambda c=c, f=f: f(c)))
    import copy as _copy4
    import pickle as _pickle4
    import re as _re4
    from predicate.regex_predicate import RegexPredicate as _Rx4
    mks += [("negate(AlwaysTruePredicate())", lambda: PP.AlwaysTruePredicate()), ("negate(AlwaysFalsePredicate())", lambda: PP.AlwaysFalsePredicate()),
            ("negate(copy.deepcopy(always_true_p))", lambda: _copy4.deepcopy(PP.always_true_p)), ("negate(pickle.loads(pickle.dumps(always_false_p)))", lambda: _pickle4.loads(_pickle4.dumps(PP.always_false_p))),
            ("negate(copy.deepcopy(is_none_p))", lambda: _copy4.deepcopy(is_none_p_)), ("negate(copy.deepcopy(is_empty_p))", lambda: _copy4.deepcopy(PP.is_empty_p))]
    for pat_, fl_ in (("^(yes|no)$", _re4.IGNORECASE), ("^a.c$", _re4.DOTALL), ("^x$", _re4.MULTILINE), ("ab", 0)):
        try:
            _Rx4(pat_, flags=fl_)
            mks.append((f"negate(RegexPredicate({pat_!r}, flags={fl_!r}))", lambda pat_=pat_, fl_=fl_: _Rx4(pat_, flags=fl_)))
        except TypeError:
            pass
    hvals += ["YES", "yes", "No", "maybe", "a\nc", "abc", "x\n", "x", "\nx", "cab"]
    hn, hfails = history.run([(lb, neg_call(mk)) for lb, mk in mks], poison=[("negate(5)  # not a predicate", lambda: negate(5))] * 3, passes=4, seed=int(payload.get("seed", 0)), vetted=True)
    n += hn
    fails += hfails
    # a negation computed earlier must stay the complement after the optimizer has seen it inside another tree
    from predicate import optimize as _optimize
    for mk_p, other in ((lambda: in_p(1, 2), lambda: not_in_p(3, 4)), (lambda: not_in_p(1, 2), lambda: in_p(3, 4)), (lambda: in_p(1, 2), lambda: in_p(3, 4)),
                        (lambda: PP.GePredicate(v=2), lambda: PP.LePredicate(v=5))):
        p0 = mk_p()
        q0 = negate(p0)
        for build in (lambda a, b: PP.AndPredicate(left=a, right=b), lambda a, b: PP.OrPredicate(left=a, right=b), lambda a, b: PP.OrPredicate(left=b, right=a)):
            for subject in (q0, p0):
                try:
                    _optimize(build(subject, other()))
                except Exception:  # noqa: BLE001
                    pass
        for x in (1, 2, 3, 4, 5, 0, 6):
            n += 1
            if call(p0, x)[0] == "ok" and call(q0, x) != ("ok", not call(p0, x)[1]):
                fails.append({"p": repr(p0), "p_structure": skey(p0), "x": repr(x), "p(x)": call(p0, x)[1], "negate(p)": repr(q0), "negate(p)_structure": skey(q0),
                              "negate(p)(x)": repr(call(q0, x)), "history": "negate(p) computed first, then optimize() ran on trees containing p / negate(p)"})
                break
    return {"evaluations": n, "failures": fails[:8], "known_hits": [],
            "samples": [{"p": repr(ps[0]), "x": repr(VALUES[3])}]}


def replay(payload):
    return {"fails": True, "note": "re-run ./check C04; failing inputs are listed by repr", "input": payload["replay"].get("input")}


if __name__ == "__main__":
    main({"correspondence": correspondence, "search": search, "replay": replay})
